"""Front end: ./check <id> [--tier quick|thorough] [--replay file]."""

from __future__ import annotations

import argparse
import importlib
import json
import os
import sys
import traceback

from .core import AnalysisError, Repo, Report


def main(argv: list[str] | None = None) -> int:
    ap = argparse.ArgumentParser()
    ap.add_argument("prop")
    ap.add_argument("--tier", default=os.environ.get("VERIF_TIER") or "quick", choices=["quick", "thorough"])
    ap.add_argument("--replay", default=None)
    args = ap.parse_args(argv)
    prop = args.prop.upper()
    rep = Report(prop, args.tier)
    try:
        mod = importlib.import_module(f"fv.rules.{prop.lower()}")
    except ModuleNotFoundError:
        print(f"ANALYSIS-ERROR property={prop}: no rule set")
        return 2
    try:
        repo = Repo()
        mod.run(repo, rep, args.tier)
        if args.tier == "thorough" and hasattr(mod, "thorough"):
            mod.thorough(repo, rep)
        if args.replay:
            want = json.load(open(args.replay))
            key = f"{want['rule']}|{want['construct']}"
            hits = [o for o in rep.obs if o.key() == key]
            for o in hits:
                print(f"REPLAY {o.status}: {o.rule} {o.construct} :: {o.detail} [{o.loc}]")
            if not hits:
                print(f"REPLAY: obligation {key} no longer produced on this tree")
        problems = []
        if args.tier == "thorough" and not args.replay:
            from . import selftest

            summary, problems = selftest.collect(prop)
            rep.analysed["selftest"] = summary
            vsum, vprob = selftest.whole_tree_variants(prop, rep.obs)
            rep.analysed["whole-tree benign variants"] = vsum
            problems = list(problems) + vprob
            print(f"VARIANTS {prop} " + "; ".join(f"{k}: {v}" for k, v in vsum.items()))
            ssum, sprob = selftest.seeded_variants(prop)
            if ssum:
                rep.analysed["seeded defects (independent authors)"] = ssum
                problems = list(problems) + sprob
                print(f"SEEDED {prop} " + "; ".join(f"{k}: {v[:60]}" for k, v in ssum.items()))
            print(f"SELFTEST {prop} fired {summary.get('breaking_fired', '0/0')}" + (f" (+{summary['breaking_stopped_exit2']} stopped with exit 2)" if summary.get("breaking_stopped_exit2") else "")
                  + f", silent {summary.get('benign_silent', '0/0')} ({summary.get('variants', 0)} scratch-copy variants)")
        code = rep.finish(repo)
        if problems and code == 0:
            print(f"ANALYSIS-ERROR property={prop}: checker self-test failed: " + "; ".join(f"{m}={st}" for m, st, _ in problems))
            return 2
        return code
    except AnalysisError as e:
        print(f"ANALYSIS-ERROR property={prop}: {e}")
        return 2
    except Exception:  # noqa: BLE001
        print(f"ANALYSIS-ERROR property={prop}: internal error")
        traceback.print_exc()
        return 2


if __name__ == "__main__":
    sys.exit(main())
