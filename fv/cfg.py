"""M3: statement-level control-flow graph, dominators, must-pass-through queries.

Nodes are the ast statement objects themselves (compound statements stand for their
header/test), plus three sentinels ENTRY, EXIT (normal return or fall off the end) and
RAISE (exceptional exit).  The graph over-approximates feasible paths (every statement
inside a `try` body may jump to every handler; `finally` is entered from every way out
of the protected region and left towards every continuation), which is the conservative
direction for "on every path" rules.
"""

from __future__ import annotations

import ast
from collections import defaultdict
from typing import Callable, Iterable

ENTRY = "ENTRY"
EXIT = "EXIT"
RAISE = "RAISE"

Node = object


class CFG:
    def __init__(self, fn: ast.FunctionDef | ast.AsyncFunctionDef) -> None:
        self.fn = fn
        self.succ: dict[Node, set[Node]] = defaultdict(set)
        self.pred: dict[Node, set[Node]] = defaultdict(set)
        self.nodes: list[Node] = [ENTRY, EXIT, RAISE]
        self._seen: set[int] = set()
        self.parent_stmt: dict[ast.stmt, ast.stmt | None] = {}
        ends = self._block(fn.body, [ENTRY], loop=None, handlers=[RAISE], finals=[], parent=None)
        for e in ends:
            self._edge(e, EXIT)
        self._dom: dict[Node, set[Node]] | None = None
        self._pdom: dict[Node, set[Node]] | None = None

    # ---- construction ----------------------------------------------------------------
    def _add(self, n: Node) -> None:
        if id(n) not in self._seen:
            self._seen.add(id(n))
            self.nodes.append(n)

    def _edge(self, a: Node, b: Node) -> None:
        self._add(a)
        self._add(b)
        self.succ[a].add(b)
        self.pred[b].add(a)

    def _block(self, stmts, preds, loop, handlers, finals, parent) -> list[Node]:
        """Wire `stmts` after `preds`; return the nodes that fall through the end."""
        cur = list(preds)
        for st in stmts:
            if not cur:
                # unreachable code: still add node for completeness
                self._add(st)
            cur = self._stmt(st, cur, loop, handlers, finals, parent)
        return cur

    def _stmt(self, st, preds, loop, handlers, finals, parent) -> list[Node]:
        self.parent_stmt[st] = parent
        for p in preds:
            self._edge(p, st)
        self._add(st)
        # any statement may raise -> innermost handler targets
        if _may_raise(st):
            for h in handlers:
                self._edge(st, h)
        if isinstance(st, ast.Return):
            if finals:
                self._edge(st, finals[-1])
            else:
                self._edge(st, EXIT)
            return []
        if isinstance(st, ast.Raise):
            for h in handlers:
                self._edge(st, h)
            return []
        if isinstance(st, ast.Break):
            assert loop is not None
            loop["breaks"].append(st)
            return []
        if isinstance(st, ast.Continue):
            assert loop is not None
            self._edge(st, loop["head"])
            return []
        if isinstance(st, ast.If):
            a = self._block(st.body, [st], loop, handlers, finals, st)
            b = self._block(st.orelse, [st], loop, handlers, finals, st) if st.orelse else [st]
            return a + b
        if isinstance(st, (ast.For, ast.AsyncFor, ast.While)):
            info = {"head": st, "breaks": []}
            body_end = self._block(st.body, [st], info, handlers, finals, st)
            for e in body_end:
                self._edge(e, st)
            out: list[Node] = []
            if st.orelse:
                out += self._block(st.orelse, [st], loop, handlers, finals, st)
            else:
                infinite = (
                    isinstance(st, ast.While)
                    and isinstance(st.test, ast.Constant)
                    and bool(st.test.value)
                )
                if not infinite:
                    out.append(st)
            out += info["breaks"]
            return out
        if isinstance(st, (ast.With, ast.AsyncWith)):
            return self._block(st.body, [st], loop, handlers, finals, st)
        if isinstance(st, ast.Try):
            return self._try(st, loop, handlers, finals)
        if isinstance(st, ast.Match):  # not used by the repo; treat arms as alternatives
            out = []
            for case in st.cases:
                out += self._block(case.body, [st], loop, handlers, finals, st)
            return out + [st]
        return [st]

    def _try(self, st: ast.Try, loop, handlers, finals) -> list[Node]:
        fin_entry: Node | None = None
        if st.finalbody:
            fin_entry = st.finalbody[0]
        # targets for exceptions raised in the body
        h_targets: list[Node] = [h for h in st.handlers]
        catches_all = any(
            h.type is None or (isinstance(h.type, ast.Name) and h.type.id in ("Exception", "BaseException"))
            for h in st.handlers
        )
        # exceptional entry into `finally` leaves exceptionally again: such paths never reach the normal
        # EXIT, so they are routed straight to the outer handlers (the finally statements stay on every
        # normal/return path, which is what the "on every normal exit" rules ask about)
        outer = list(handlers)
        body_handlers = h_targets + ([] if catches_all else outer)
        if not h_targets:
            body_handlers = outer
        new_finals = finals + ([fin_entry] if fin_entry is not None else [])
        body_end = self._block(st.body, [st], loop, body_handlers, new_finals, st)
        if st.orelse:
            body_end = self._block(st.orelse, body_end, loop, outer, new_finals, st)
        ends = list(body_end)
        for h in st.handlers:
            self._add(h)
            self.parent_stmt[h] = st  # type: ignore[index]
            ends += self._block(h.body, [h], loop, outer, new_finals, st)
        if fin_entry is None:
            return ends
        fin_end = self._block(st.finalbody, ends, loop, handlers, finals, st)
        # finally can be entered exceptionally or by return: leave towards those too
        has_return = any(isinstance(n, ast.Return) for b in (st.body, st.orelse, *[h.body for h in st.handlers]) for s in b for n in ast.walk(s))
        for e in fin_end:
            if has_return:
                self._edge(e, finals[-1] if finals else EXIT)
        return fin_end

    # ---- analyses --------------------------------------------------------------------
    def _dominators(self, entry: Node, succ, pred) -> dict[Node, set[Node]]:
        reach = self._reach(entry, succ)
        ids = {id(n): n for n in reach}
        allset = set(ids)
        dom: dict[int, set[int]] = {i: set(allset) for i in ids}
        dom[id(entry)] = {id(entry)}
        changed = True
        order = [n for n in self.nodes if id(n) in ids]
        while changed:
            changed = False
            for n in order:
                if n is entry:
                    continue
                ps = [p for p in pred[n] if id(p) in ids]
                if ps:
                    new = set.intersection(*(dom[id(p)] for p in ps))
                else:
                    new = set()
                new = new | {id(n)}
                if new != dom[id(n)]:
                    dom[id(n)] = new
                    changed = True
        return {ids[i]: {ids[j] for j in s} for i, s in dom.items()}

    def _reach(self, start: Node, succ) -> list[Node]:
        seen: set[int] = set()
        out: list[Node] = []
        stack = [start]
        while stack:
            n = stack.pop()
            if id(n) in seen:
                continue
            seen.add(id(n))
            out.append(n)
            stack.extend(succ[n])
        return out

    def dominates(self, a: Node, b: Node) -> bool:
        """Every path ENTRY -> b passes through a."""
        if self._dom is None:
            self._dom = self._dominators(ENTRY, self.succ, self.pred)
        ds = self._dom.get(b)
        return ds is not None and any(x is a for x in ds)

    def postdominates(self, a: Node, b: Node, exits: Iterable[Node] = (EXIT,)) -> bool:
        """Every path b -> normal EXIT passes through a (exceptional exits ignored)."""
        return not self.reaches_avoiding(b, set(id(e) for e in exits), lambda n: n is a, start_inclusive=False)

    def reaches_avoiding(
        self,
        start: Node,
        target_ids: set[int],
        blocked: Callable[[Node], bool],
        start_inclusive: bool = True,
    ) -> bool:
        """Is some target reachable from start along a path with no `blocked` node?"""
        seen: set[int] = set()
        stack: list[Node] = [start] if start_inclusive else list(self.succ[start])
        if start_inclusive and blocked(start):
            return False
        while stack:
            n = stack.pop()
            if id(n) in seen:
                continue
            seen.add(id(n))
            if blocked(n):
                continue
            if id(n) in target_ids:
                return True
            stack.extend(self.succ[n])
        return False

    def path_avoiding(self, start: Node, target: Node, blocked: Callable[[Node], bool]) -> list[Node] | None:
        """A witness path start -> target not passing a blocked node, or None."""
        from collections import deque

        prev: dict[int, Node | None] = {id(start): None}
        obj = {id(start): start}
        dq = deque([start])
        while dq:
            n = dq.popleft()
            if n is target:
                path = []
                cur: Node | None = n
                while cur is not None:
                    path.append(cur)
                    cur = prev[id(cur)]
                return list(reversed(path))
            for s in self.succ[n]:
                if id(s) in prev or (blocked(s) and s is not target):
                    continue
                prev[id(s)] = n
                obj[id(s)] = s
                dq.append(s)
        return None

    def stmts(self) -> list[ast.stmt]:
        return [n for n in self.nodes if isinstance(n, ast.stmt)]

    def ancestors(self, st: ast.stmt) -> list[ast.stmt]:
        out = []
        cur = self.parent_stmt.get(st)
        while cur is not None:
            out.append(cur)
            cur = self.parent_stmt.get(cur)
        return out


def _may_raise(st: ast.stmt) -> bool:
    if isinstance(st, (ast.Pass, ast.Break, ast.Continue, ast.Global, ast.Nonlocal)):
        return False
    if isinstance(st, (ast.If, ast.While)):
        return _expr_may_raise(st.test)
    if isinstance(st, (ast.For, ast.AsyncFor)):
        return True
    if isinstance(st, (ast.With, ast.AsyncWith, ast.Try)):
        return isinstance(st, (ast.With, ast.AsyncWith))
    for n in ast.walk(st):
        if isinstance(n, (ast.Call, ast.Subscript, ast.Attribute, ast.BinOp, ast.Raise, ast.Assert, ast.Await)):
            return True
    return False


def _expr_may_raise(e: ast.expr) -> bool:
    return any(isinstance(n, (ast.Call, ast.Subscript, ast.BinOp)) for n in ast.walk(e))


def describe(n: Node) -> str:
    if isinstance(n, str):
        return n
    if isinstance(n, ast.ExceptHandler):
        return f"L{n.lineno}: except"
    if isinstance(n, (ast.If, ast.While)):
        return f"L{n.lineno}: {type(n).__name__.lower()} {' '.join(ast.unparse(n.test).split())[:70]}"
    if isinstance(n, (ast.For, ast.AsyncFor)):
        return f"L{n.lineno}: for {ast.unparse(n.target)} in {' '.join(ast.unparse(n.iter).split())[:50]}"
    if isinstance(n, ast.AST):
        return f"L{getattr(n, 'lineno', 0)}: {' '.join(ast.unparse(n).split())[:80]}"
    return str(n)
