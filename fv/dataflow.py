"""M4: flow-insensitive local def-use (reaching definitions as the union of all
assignments to a name inside one function) and backward slices to *leaves*:
parameters, `self.<attr>` chains, calls, constants, free/global names."""

from __future__ import annotations

import ast
from dataclasses import dataclass

from .core import Func, call_name, chain, norm, walk_local


@dataclass(frozen=True)
class Leaf:
    kind: str  # "param" | "attr" | "call" | "const" | "global"
    text: str

    def __str__(self) -> str:
        return f"{self.kind}:{self.text}"


class DefUse:
    def __init__(self, f: Func) -> None:
        self.f = f
        self.params = set(f.params)
        a = f.node.args
        if a.vararg:
            self.params.add(a.vararg.arg)
        if a.kwarg:
            self.params.add(a.kwarg.arg)
        self.defs: dict[str, list[tuple[ast.AST, str, ast.stmt | None]]] = {}
        self._collect()

    def _add(self, target: ast.AST, value: ast.AST, how: str, stmt: ast.stmt | None) -> None:
        if isinstance(target, ast.Name):
            self.defs.setdefault(target.id, []).append((value, how, stmt))
        elif isinstance(target, (ast.Tuple, ast.List)):
            for i, t in enumerate(target.elts):
                if isinstance(t, ast.Starred):
                    t = t.value
                if isinstance(value, (ast.Tuple, ast.List)) and len(value.elts) == len(target.elts) and how == "assign":
                    self._add(t, value.elts[i], "assign", stmt)
                else:
                    self._add(t, value, how + f"[{i}]", stmt)

    def _collect(self) -> None:
        for n in walk_local(self.f.node):
            if isinstance(n, ast.Assign):
                for t in n.targets:
                    self._add(t, n.value, "assign", n)
            elif isinstance(n, ast.AnnAssign) and n.value is not None:
                self._add(n.target, n.value, "assign", n)
            elif isinstance(n, ast.AugAssign):
                self._add(n.target, n.value, "aug", n)
            elif isinstance(n, (ast.For, ast.AsyncFor)):
                self._add(n.target, n.iter, "elem", n)
            elif isinstance(n, (ast.With, ast.AsyncWith)):
                for it in n.items:
                    if it.optional_vars is not None:
                        self._add(it.optional_vars, it.context_expr, "with", n)
            elif isinstance(n, ast.comprehension):
                self._add(n.target, n.iter, "elem", None)
            elif isinstance(n, ast.NamedExpr):
                self._add(n.target, n.value, "assign", None)
            elif isinstance(n, ast.Call) and isinstance(n.func, ast.Attribute) and isinstance(n.func.value, ast.Name) \
                    and n.func.attr in ("append", "add", "extend", "insert", "update") and n.args:
                self.defs.setdefault(n.func.value.id, []).append((n.args[-1], "elem-add", None))
            elif isinstance(n, ast.ExceptHandler) and n.name:
                self.defs.setdefault(n.name, []).append((ast.Constant(value=None), "except", None))

    # ---------------------------------------------------------------------------------
    def leaves(self, expr: ast.AST, max_depth: int = 12) -> set[Leaf]:
        out: set[Leaf] = set()
        seen: set[str] = set()

        def rec(e: ast.AST, depth: int) -> None:
            if depth > max_depth:
                out.add(Leaf("global", "<depth>"))
                return
            if isinstance(e, ast.Constant):
                out.add(Leaf("const", repr(e.value)))
                return
            if isinstance(e, ast.Name):
                if e.id in self.defs and e.id not in seen:
                    seen.add(e.id)
                    for v, _how, _st in self.defs[e.id]:
                        rec(v, depth + 1)
                    if e.id in self.params:
                        out.add(Leaf("param", e.id))
                elif e.id in self.params:
                    out.add(Leaf("param", e.id))
                elif e.id not in self.defs:
                    out.add(Leaf("global", e.id))
                return
            if isinstance(e, ast.Attribute):
                ch = chain(e)
                if ch and ch[0] == "self":
                    out.add(Leaf("attr", ".".join(ch)))
                    return
                rec(e.value, depth + 1)
                return
            if isinstance(e, ast.Call):
                out.add(Leaf("call", call_name(e) or norm(e.func)))
                if isinstance(e.func, ast.Attribute):
                    rec(e.func.value, depth + 1)
                for a in e.args:
                    rec(a.value if isinstance(a, ast.Starred) else a, depth + 1)
                for k in e.keywords:
                    rec(k.value, depth + 1)
                return
            for c in ast.iter_child_nodes(e):
                if isinstance(c, (ast.expr_context, ast.operator, ast.cmpop, ast.boolop, ast.unaryop)):
                    continue
                rec(c, depth + 1)

        rec(expr, 0)
        return out

    def value_exprs(self, name: str) -> list[ast.AST]:
        return [v for v, _h, _s in self.defs.get(name, [])]

    def expand(self, expr: ast.AST, max_depth: int = 6) -> list[ast.AST]:
        """All defining expressions an expression may stand for (follows plain name copies)."""
        out: list[ast.AST] = []
        seen: set[str] = set()

        def rec(e: ast.AST, d: int) -> None:
            if isinstance(e, ast.Name) and e.id in self.defs and e.id not in seen and d < max_depth:
                seen.add(e.id)
                for v, how, _s in self.defs[e.id]:
                    if how == "assign":
                        rec(v, d + 1)
                    else:
                        out.append(v)
                if e.id in self.params:
                    out.append(e)
            elif isinstance(e, ast.IfExp):
                rec(e.body, d + 1)
                rec(e.orelse, d + 1)
            else:
                out.append(e)

        rec(expr, 0)
        return out


def mentions(expr: ast.AST, text: str) -> bool:
    return text in norm(expr)
