"""M4: flow-insensitive local def-use (reaching definitions as the union of all
assignments to a name inside one function) and backward slices to *leaves*:
parameters, `self.<attr>` chains, calls, constants, free/global names."""

from __future__ import annotations

import ast
from dataclasses import dataclass

from .core import Func, call_name, chain, norm, walk_local


@dataclass(frozen=True)
class Leaf:
    kind: str  # "param" | "attr" | "call" | "const" | "global"
    text: str

    def __str__(self) -> str:
        return f"{self.kind}:{self.text}"


class DefUse:
    def __init__(self, f: Func) -> None:
        self.f = f
        self.params = set(f.params)
        a = f.node.args
        if a.vararg:
            self.params.add(a.vararg.arg)
        if a.kwarg:
            self.params.add(a.kwarg.arg)
        self.defs: dict[str, list[tuple[ast.AST, str, ast.stmt | None]]] = {}
        self._collect()

    def _add(self, target: ast.AST, value: ast.AST, how: str, stmt: ast.stmt | None) -> None:
        if isinstance(target, ast.Name):
            self.defs.setdefault(target.id, []).append((value, how, stmt))
        elif isinstance(target, (ast.Tuple, ast.List)):
            for i, t in enumerate(target.elts):
                if isinstance(t, ast.Starred):
                    t = t.value
                if isinstance(value, (ast.Tuple, ast.List)) and len(value.elts) == len(target.elts) and how == "assign":
                    self._add(t, value.elts[i], "assign", stmt)
                else:
                    self._add(t, value, how + f"[{i}]", stmt)

    def _collect(self) -> None:
        for n in walk_local(self.f.node):
            if isinstance(n, ast.Assign):
                for t in n.targets:
                    self._add(t, n.value, "assign", n)
            elif isinstance(n, ast.AnnAssign) and n.value is not None:
                self._add(n.target, n.value, "assign", n)
            elif isinstance(n, ast.AugAssign):
                self._add(n.target, n.value, "aug", n)
            elif isinstance(n, (ast.For, ast.AsyncFor)):
                self._add(n.target, n.iter, "elem", n)
            elif isinstance(n, (ast.With, ast.AsyncWith)):
                for it in n.items:
                    if it.optional_vars is not None:
                        self._add(it.optional_vars, it.context_expr, "with", n)
            elif isinstance(n, ast.comprehension):
                self._add(n.target, n.iter, "elem", None)
            elif isinstance(n, ast.NamedExpr):
                self._add(n.target, n.value, "assign", None)
            elif isinstance(n, ast.Call) and isinstance(n.func, ast.Attribute) and isinstance(n.func.value, ast.Name) \
                    and n.func.attr in ("append", "add", "extend", "insert", "update") and n.args:
                self.defs.setdefault(n.func.value.id, []).append((n.args[-1], "elem-add", None))
            elif isinstance(n, ast.ExceptHandler) and n.name:
                self.defs.setdefault(n.name, []).append((ast.Constant(value=None), "except", None))

    # ---------------------------------------------------------------------------------
    def leaves(self, expr: ast.AST, max_depth: int = 12) -> set[Leaf]:
        out: set[Leaf] = set()
        seen: set[str] = set()

        def rec(e: ast.AST, depth: int) -> None:
            if depth > max_depth:
                out.add(Leaf("global", "<depth>"))
                return
            if isinstance(e, ast.Constant):
                out.add(Leaf("const", repr(e.value)))
                return
            if isinstance(e, ast.Name):
                if e.id in self.defs and e.id not in seen:
                    seen.add(e.id)
                    for v, _how, _st in self.defs[e.id]:
                        rec(v, depth + 1)
                    if e.id in self.params:
                        out.add(Leaf("param", e.id))
                elif e.id in self.params:
                    out.add(Leaf("param", e.id))
                elif e.id not in self.defs:
                    out.add(Leaf("global", e.id))
                return
            if isinstance(e, ast.Attribute):
                ch = chain(e)
                if ch and ch[0] == "self":
                    out.add(Leaf("attr", ".".join(ch)))
                    return
                rec(e.value, depth + 1)
                return
            if isinstance(e, ast.Call):
                out.add(Leaf("call", call_name(e) or norm(e.func)))
                if isinstance(e.func, ast.Attribute):
                    rec(e.func.value, depth + 1)
                for a in e.args:
                    rec(a.value if isinstance(a, ast.Starred) else a, depth + 1)
                for k in e.keywords:
                    rec(k.value, depth + 1)
                return
            for c in ast.iter_child_nodes(e):
                if isinstance(c, (ast.expr_context, ast.operator, ast.cmpop, ast.boolop, ast.unaryop)):
                    continue
                rec(c, depth + 1)

        rec(expr, 0)
        return out

    def value_exprs(self, name: str) -> list[ast.AST]:
        return [v for v, _h, _s in self.defs.get(name, [])]

    def expand(self, expr: ast.AST, max_depth: int = 6) -> list[ast.AST]:
        """All defining expressions an expression may stand for (follows plain name copies)."""
        out: list[ast.AST] = []
        seen: set[str] = set()

        def rec(e: ast.AST, d: int) -> None:
            if isinstance(e, ast.Name) and e.id in self.defs and e.id not in seen and d < max_depth:
                seen.add(e.id)
                for v, how, _s in self.defs[e.id]:
                    if how == "assign":
                        rec(v, d + 1)
                    else:
                        out.append(v)
                if e.id in self.params:
                    out.append(e)
            elif isinstance(e, ast.IfExp):
                rec(e.body, d + 1)
                rec(e.orelse, d + 1)
            else:
                out.append(e)

        rec(expr, 0)
        return out


def mentions(expr: ast.AST, text: str) -> bool:
    return text in norm(expr)


class Canon:
    """Alpha-normalisation of expressions inside one function: every local variable is replaced by what it stands for, so that
    rules can be written over parameters, attributes, literals and call names only and are insensitive to the naming of locals.

      single plain assignment      x -> canon(value)
      tuple unpack `a, b = v`      a -> canon(v)[0]
      loop / comprehension target  x -> ELEM(canon(iterable))        (ELEMk for the k-th element of a tuple target)
      several definitions          x -> ANY(canon(d1), canon(d2), ...)   (sorted, duplicates removed)
      recursion through itself     x -> REC
    """

    def __init__(self, f: Func, max_depth: int = 7) -> None:
        self.f = f
        self.du = DefUse(f)
        self.max_depth = max_depth

    def node(self, e: ast.AST, _stack: tuple[str, ...] = (), _depth: int = 0) -> ast.AST:
        c = self

        class T(ast.NodeTransformer):
            def visit_Name(self, n: ast.Name) -> ast.AST:  # noqa: N802
                if not isinstance(n.ctx, ast.Load) or n.id in c.du.params and n.id not in c.du.defs:
                    return n
                if n.id not in c.du.defs:
                    return n
                if n.id in _stack or _depth >= c.max_depth:
                    return ast.Name(id="REC", ctx=ast.Load())
                alts = []
                for v, how, _st in c.du.defs[n.id]:
                    if how == "elem-add":
                        continue
                    cv = c.node(v, _stack + (n.id,), _depth + 1)
                    if how == "assign":
                        alts.append(cv)
                    elif how.startswith("assign["):
                        import re as _re

                        node2: ast.AST = cv
                        for ix in _re.findall(r"\[(\d+)\]", how):
                            node2 = ast.Subscript(value=node2, slice=ast.Constant(value=int(ix)), ctx=ast.Load())
                        alts.append(node2)
                    elif how.startswith("elem"):
                        import re as _re

                        node_: ast.AST = ast.Call(func=ast.Name(id="ELEM", ctx=ast.Load()), args=[cv], keywords=[])
                        for ix in _re.findall(r"\[(\d+)\]", how):
                            node_ = ast.Subscript(value=node_, slice=ast.Constant(value=int(ix)), ctx=ast.Load())
                        alts.append(node_)
                    elif how == "aug":
                        alts.append(ast.Call(func=ast.Name(id="AUG", ctx=ast.Load()), args=[cv], keywords=[]))
                    else:
                        alts.append(ast.Call(func=ast.Name(id=how.upper(), ctx=ast.Load()), args=[cv], keywords=[]))
                if n.id in c.du.params:
                    alts.append(ast.Name(id=n.id, ctx=ast.Load()))
                uniq: dict[str, ast.AST] = {}
                for a in alts:
                    uniq.setdefault(" ".join(ast.unparse(a).split()), a)
                if not uniq:
                    return n
                if len(uniq) == 1:
                    return next(iter(uniq.values()))
                return ast.Call(func=ast.Name(id="ANY", ctx=ast.Load()), args=[uniq[k] for k in sorted(uniq)], keywords=[])

        import copy

        return ast.fix_missing_locations(T().visit(copy.deepcopy(e)))

    def text(self, e: ast.AST | None) -> str:
        if e is None:
            return ""
        return " ".join(ast.unparse(self.node(e)).split())

    def alts(self, e: ast.AST) -> list[str]:
        """Canonical texts an expression may stand for (the alternatives of a top-level ANY are split)."""
        n = self.node(e)
        if isinstance(n, ast.Call) and isinstance(n.func, ast.Name) and n.func.id == "ANY":
            return [" ".join(ast.unparse(a).split()) for a in n.args]
        return [" ".join(ast.unparse(n).split())]
