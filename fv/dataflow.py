"""M4: flow-insensitive local def-use (reaching definitions as the union of all
assignments to a name inside one function) and backward slices to *leaves*:
parameters, `self.<attr>` chains, calls, constants, free/global names."""

from __future__ import annotations

import ast
from dataclasses import dataclass

from .core import Func, call_name, chain, norm, walk_local


@dataclass(frozen=True)
class Leaf:
    kind: str  # "param" | "attr" | "call" | "const" | "global"
    text: str

    def __str__(self) -> str:
        return f"{self.kind}:{self.text}"


class DefUse:
    def __init__(self, f: Func) -> None:
        self.f = f
        self.params = set(f.params)
        a = f.node.args
        if a.vararg:
            self.params.add(a.vararg.arg)
        if a.kwarg:
            self.params.add(a.kwarg.arg)
        self.defs: dict[str, list[tuple[ast.AST, str, ast.stmt | None]]] = {}
        self._collect()

    def _add(self, target: ast.AST, value: ast.AST, how: str, stmt: ast.stmt | None) -> None:
        if isinstance(target, ast.Name):
            self.defs.setdefault(target.id, []).append((value, how, stmt))
        elif isinstance(target, (ast.Tuple, ast.List)):
            for i, t in enumerate(target.elts):
                if isinstance(t, ast.Starred):
                    t = t.value
                if isinstance(value, (ast.Tuple, ast.List)) and len(value.elts) == len(target.elts) and how == "assign":
                    self._add(t, value.elts[i], "assign", stmt)
                else:
                    self._add(t, value, how + f"[{i}]", stmt)

    def _collect(self) -> None:
        for n in walk_local(self.f.node):
            if isinstance(n, ast.Assign):
                for t in n.targets:
                    self._add(t, n.value, "assign", n)
            elif isinstance(n, ast.AnnAssign) and n.value is not None:
                self._add(n.target, n.value, "assign", n)
            elif isinstance(n, ast.AugAssign):
                self._add(n.target, n.value, "aug", n)
            elif isinstance(n, (ast.For, ast.AsyncFor)):
                self._add(n.target, n.iter, "elem", n)
            elif isinstance(n, (ast.With, ast.AsyncWith)):
                for it in n.items:
                    if it.optional_vars is not None:
                        self._add(it.optional_vars, it.context_expr, "with", n)
            elif isinstance(n, ast.comprehension):
                self._add(n.target, n.iter, "elem", None)
            elif isinstance(n, ast.NamedExpr):
                self._add(n.target, n.value, "assign", None)
            elif isinstance(n, ast.Call) and isinstance(n.func, ast.Attribute) and isinstance(n.func.value, ast.Name) \
                    and n.func.attr in ("append", "add", "extend", "insert", "update") and n.args:
                self.defs.setdefault(n.func.value.id, []).append((n.args[-1], "elem-add", None))
            elif isinstance(n, ast.ExceptHandler) and n.name:
                self.defs.setdefault(n.name, []).append((ast.Constant(value=None), "except", None))

    # ---------------------------------------------------------------------------------
    def leaves(self, expr: ast.AST, max_depth: int = 12) -> set[Leaf]:
        out: set[Leaf] = set()
        seen: set[str] = set()

        def rec(e: ast.AST, depth: int) -> None:
            if depth > max_depth:
                out.add(Leaf("global", "<depth>"))
                return
            if isinstance(e, ast.Constant):
                out.add(Leaf("const", repr(e.value)))
                return
            if isinstance(e, ast.Name):
                if e.id in self.defs and e.id not in seen:
                    seen.add(e.id)
                    for v, _how, _st in self.defs[e.id]:
                        rec(v, depth + 1)
                    if e.id in self.params:
                        out.add(Leaf("param", e.id))
                elif e.id in self.params:
                    out.add(Leaf("param", e.id))
                elif e.id not in self.defs:
                    out.add(Leaf("global", e.id))
                return
            if isinstance(e, ast.Attribute):
                ch = chain(e)
                if ch and ch[0] == "self":
                    out.add(Leaf("attr", ".".join(ch)))
                    return
                rec(e.value, depth + 1)
                return
            if isinstance(e, ast.Call):
                out.add(Leaf("call", call_name(e) or norm(e.func)))
                if isinstance(e.func, ast.Attribute):
                    rec(e.func.value, depth + 1)
                for a in e.args:
                    rec(a.value if isinstance(a, ast.Starred) else a, depth + 1)
                for k in e.keywords:
                    rec(k.value, depth + 1)
                return
            for c in ast.iter_child_nodes(e):
                if isinstance(c, (ast.expr_context, ast.operator, ast.cmpop, ast.boolop, ast.unaryop)):
                    continue
                rec(c, depth + 1)

        rec(expr, 0)
        return out

    def value_exprs(self, name: str) -> list[ast.AST]:
        return [v for v, _h, _s in self.defs.get(name, [])]

    def expand(self, expr: ast.AST, max_depth: int = 6) -> list[ast.AST]:
        """All defining expressions an expression may stand for (follows plain name copies)."""
        out: list[ast.AST] = []
        seen: set[str] = set()

        def rec(e: ast.AST, d: int) -> None:
            if isinstance(e, ast.Name) and e.id in self.defs and e.id not in seen and d < max_depth:
                seen.add(e.id)
                for v, how, _s in self.defs[e.id]:
                    if how == "assign":
                        rec(v, d + 1)
                    else:
                        out.append(v)
                if e.id in self.params:
                    out.append(e)
            elif isinstance(e, ast.IfExp):
                rec(e.body, d + 1)
                rec(e.orelse, d + 1)
            else:
                out.append(e)

        rec(expr, 0)
        return out


def mentions(expr: ast.AST, text: str) -> bool:
    return text in norm(expr)


class Canon:
    """Alpha-normalisation of expressions inside one function: every local variable is replaced by what it stands for, so that
    rules can be written over parameters, attributes, literals and call names only and are insensitive to the naming of locals.

      single plain assignment      x -> canon(value)
      tuple unpack `a, b = v`      a -> canon(v)[0]
      loop / comprehension target  x -> ELEM(canon(iterable))        (ELEMk for the k-th element of a tuple target)
      several definitions          x -> ANY(canon(d1), canon(d2), ...)   (sorted, duplicates removed)
      recursion through itself     x -> REC

    Definitions are the *reaching* ones, computed structurally: walking outwards from the statement of the use, earlier siblings are
    scanned backwards; a definition that is executed whenever the use is (plain assignment in the same or an enclosing block,
    `with`-body assignment, both arms of an if/else, the enclosing loop's target) kills everything before it; definitions nested
    in earlier compound statements are may-definitions; definitions later in an enclosing loop body reach through the back edge;
    arms of the same `if` are exclusive.  Comprehension targets are bound inside their comprehension and renamed `_`.
    """

    def __init__(self, f: Func, max_depth: int = 7) -> None:
        self.f = f
        self.du = DefUse(f)
        self.max_depth = max_depth
        self.pm: dict[ast.AST, ast.AST] = {}
        for p in ast.walk(f.node):
            for ch in ast.iter_child_nodes(p):
                self.pm[ch] = p
        # entries per name with a statement position (comprehension targets are handled by binding)
        self.entries: dict[str, list[tuple[ast.AST, str, ast.AST | None]]] = {}
        for name, ds in self.du.defs.items():
            for v, how, st in ds:
                if how == "elem-add":
                    continue
                if st is None and how == "assign":  # walrus
                    st = self._stmt_of(v)
                self.entries.setdefault(name, []).append((v, how, st))
        self._cache: dict[tuple[int, int], ast.AST] = {}

    # ---- positions -------------------------------------------------------------------
    def _stmt_of(self, n: ast.AST) -> ast.AST | None:
        cur: ast.AST | None = n
        while cur is not None and not isinstance(cur, ast.stmt):
            cur = self.pm.get(cur)
        return cur if cur is not None and cur is not self.f.node and (cur in self.pm) else None

    def _inside(self, st: ast.AST | None, container: ast.AST) -> bool:
        cur = st
        while cur is not None:
            if cur is container:
                return True
            if cur is self.f.node:
                return False
            cur = self.pm.get(cur)
        return False

    def _must_def(self, s: ast.AST, name: str) -> bool:
        if isinstance(s, (ast.Assign, ast.AnnAssign)):
            return any(st is s and how.startswith("assign") for _v, how, st in self.entries.get(name, []))
        if isinstance(s, (ast.With, ast.AsyncWith)):
            return any(st is s for _v, _h, st in self.entries.get(name, [])) or any(self._must_def(b, name) for b in s.body)
        if isinstance(s, ast.If):
            return bool(s.orelse) and any(self._must_def(b, name) for b in s.body) and any(self._must_def(b, name) for b in s.orelse)
        return False

    def _block_of(self, cur: ast.AST) -> tuple[ast.AST, str, list, int] | None:
        par = self.pm.get(cur)
        if par is None:
            return None
        for fieldname in ("body", "orelse", "finalbody", "handlers"):
            block = getattr(par, fieldname, None)
            if isinstance(block, list):
                for i, b in enumerate(block):
                    if b is cur:
                        return par, fieldname, block, i
        return None

    def reaching(self, name: str, at: ast.AST | None) -> tuple[list[tuple[ast.AST, str, ast.AST | None]], bool]:
        """(definitions of `name` that may reach statement `at`, whether the parameter / outer value may reach too)."""
        ents = [e for e in self.entries.get(name, []) if not (e[2] is None and e[1].startswith("elem"))]
        if at is None:
            return ents, True
        out: list[tuple[ast.AST, str, ast.AST | None]] = []

        def add_inside(container: ast.AST) -> None:
            for e in ents:
                if self._inside(e[2], container) and not any(e is o for o in out):
                    out.append(e)

        cur: ast.AST = at
        killed = False
        while cur is not self.f.node and not killed:
            loc = self._block_of(cur)
            if loc is None:
                break
            par, fieldname, block, idx = loc
            if fieldname != "handlers":
                for s in reversed(block[:idx]):
                    add_inside(s)
                    if self._must_def(s, name):
                        killed = True
                        break
            if killed:
                break
            if isinstance(par, (ast.For, ast.AsyncFor, ast.While)) and fieldname == "body":
                hdr = [e for e in ents if e[2] is par]
                if hdr and isinstance(par, (ast.For, ast.AsyncFor)):
                    for e in hdr:
                        if not any(e is o for o in out):
                            out.append(e)
                    killed = True
                    break
                for s in block[idx:]:
                    add_inside(s)
                if hdr:  # walrus in a while test
                    out.extend(e for e in hdr if not any(e is o for o in out))
                    killed = True
                    break
            elif isinstance(par, (ast.With, ast.AsyncWith, ast.If)):
                hdr = [e for e in ents if e[2] is par]
                if hdr and (isinstance(par, ast.If) or fieldname == "body"):
                    out.extend(e for e in hdr if not any(e is o for o in out))
                    killed = True
                    break
            elif isinstance(par, ast.Try):
                if fieldname in ("orelse", "finalbody"):
                    for s in par.body:
                        add_inside(s)
                if fieldname == "finalbody":
                    for s in list(par.orelse) + list(par.handlers):
                        add_inside(s)
            elif isinstance(par, ast.ExceptHandler):
                if par.name == name:
                    return [(ast.Name(id="EXC", ctx=ast.Load()), "assign", None)], False
                tr = self.pm.get(par)
                if isinstance(tr, ast.Try):
                    for s in tr.body:
                        add_inside(s)
            cur = par
            if isinstance(cur, ast.ExceptHandler):
                continue
        return out, not killed

    # ---- normalisation ---------------------------------------------------------------
    def node(self, e: ast.AST, at: ast.AST | None = None) -> ast.AST:
        if at is None:
            at = self._stmt_of(e)
            if at is None and e in self.pm:
                at = None
        return ast.fix_missing_locations(self._conv(e, at, (), 0, {}))

    @staticmethod
    def _wrap(fn: str, arg: ast.AST) -> ast.AST:
        return ast.Call(func=ast.Name(id=fn, ctx=ast.Load()), args=[arg], keywords=[])

    @staticmethod
    def _index(node: ast.AST, how: str) -> ast.AST:
        import re as _re

        for ix in _re.findall(r"\[(\d+)\]", how):
            node = ast.Subscript(value=node, slice=ast.Constant(value=int(ix)), ctx=ast.Load())
        return node

    def _bind_target(self, target: ast.AST, base: ast.AST, bound: dict[str, ast.AST]) -> None:
        if isinstance(target, ast.Name):
            bound[target.id] = base
        elif isinstance(target, (ast.Tuple, ast.List)):
            for i, t in enumerate(target.elts):
                if isinstance(t, ast.Starred):
                    t = t.value
                self._bind_target(t, ast.Subscript(value=base, slice=ast.Constant(value=i), ctx=ast.Load()), bound)

    def _conv(self, e: ast.AST, at: ast.AST | None, stack: tuple[str, ...], depth: int, bound: dict[str, ast.AST]) -> ast.AST:
        import copy

        if isinstance(e, ast.Name):
            return self._name(e, at, stack, depth, bound)
        if isinstance(e, (ast.ListComp, ast.SetComp, ast.GeneratorExp, ast.DictComp)):
            b2 = dict(bound)
            gens = []
            for g in e.generators:
                it = self._conv(g.iter, at, stack, depth, b2)
                self._bind_target(g.target, self._wrap("ELEM", it), b2)
                ifs = [self._conv(i, at, stack, depth, b2) for i in g.ifs]
                gens.append(ast.comprehension(target=ast.Name(id="_", ctx=ast.Store()), iter=it, ifs=ifs, is_async=g.is_async))
            if isinstance(e, ast.DictComp):
                return ast.DictComp(key=self._conv(e.key, at, stack, depth, b2), value=self._conv(e.value, at, stack, depth, b2), generators=gens)
            return type(e)(elt=self._conv(e.elt, at, stack, depth, b2), generators=gens)
        if isinstance(e, ast.Lambda):
            b2 = dict(bound)
            for a in list(e.args.posonlyargs) + list(e.args.args) + list(e.args.kwonlyargs):
                b2[a.arg] = ast.Name(id=a.arg, ctx=ast.Load())
            return ast.Lambda(args=copy.deepcopy(e.args), body=self._conv(e.body, at, stack, depth, b2))
        if not isinstance(e, ast.AST):
            return e
        if isinstance(e, ast.IfExp):
            return self._ifexp(self._conv(e.test, at, stack, depth, bound), self._conv(e.body, at, stack, depth, bound), self._conv(e.orelse, at, stack, depth, bound))
        kw = {}
        for fieldname, val in ast.iter_fields(e):
            if isinstance(val, list):
                kw[fieldname] = [self._conv(v, at, stack, depth, bound) if isinstance(v, ast.AST) else v for v in val]
            elif isinstance(val, ast.AST):
                kw[fieldname] = self._conv(val, at, stack, depth, bound)
            else:
                kw[fieldname] = val
        return type(e)(**kw)

    def _name(self, n: ast.Name, at: ast.AST | None, stack: tuple[str, ...], depth: int, bound: dict[str, ast.AST]) -> ast.AST:
        import copy

        if not isinstance(n.ctx, ast.Load):
            return ast.Name(id=n.id, ctx=n.ctx)
        if n.id in bound:
            return copy.deepcopy(bound[n.id])
        if n.id not in self.du.defs:
            return ast.Name(id=n.id, ctx=ast.Load())
        if depth >= self.max_depth:
            return ast.Name(id="REC", ctx=ast.Load())
        ents, outer = self.reaching(n.id, at)
        if not ents and not (outer and n.id in self.du.params):
            # use before any positioned definition (closure, comprehension-only name): fall back to every definition
            ents = list(self.entries.get(n.id, []))
        sel = self._select(n.id, ents, outer, at, stack, depth)
        if sel is not None:
            return sel
        alts: list[ast.AST] = []
        for v, how, st in ents:
            key = f"{n.id}@{id(v)}"
            if key in stack:
                alts.append(ast.Name(id="REC", ctx=ast.Load()))
                continue
            if st is None and how.startswith("elem"):
                cv = self._conv(v, at, stack + (key,), depth + 1, {})
            else:
                cv = self._conv(v, st if st is not None else at, stack + (key,), depth + 1, {})
            if how == "assign":
                alts.append(cv)
            elif how.startswith("assign["):
                alts.append(self._index(cv, how))
            elif how.startswith("elem"):
                alts.append(self._index(self._wrap("ELEM", cv), how))
            elif how == "aug":
                alts.append(self._wrap("AUG", cv))
            else:
                alts.append(self._index(self._wrap(how.split("[")[0].upper(), cv), how))
        if outer and n.id in self.du.params:
            alts.append(ast.Name(id=n.id, ctx=ast.Load()))
        uniq: dict[str, ast.AST] = {}
        for a in alts:
            uniq.setdefault(" ".join(ast.unparse(ast.fix_missing_locations(a)).split()), a)
        if not uniq:
            return ast.Name(id=n.id, ctx=ast.Load())
        if len(uniq) == 1:
            return next(iter(uniq.values()))
        return ast.Call(func=ast.Name(id="ANY", ctx=ast.Load()), args=[uniq[k] for k in sorted(uniq)], keywords=[])

    def _select(self, name: str, ents, outer: bool, at, stack, depth) -> ast.AST | None:
        """Two reaching plain assignments that are the arms of one `if` (if/else, or default followed by a conditional override)
        are written as the conditional expression `B if test else A`, so that the statement form and the expression form of a
        selection have the same canonical text."""
        if outer or len(ents) != 2 or any(how != "assign" or st is None for _v, how, st in ents):
            return None
        (v0, _h0, s0), (v1, _h1, s1) = ents
        l0, l1 = self._block_of(s0), self._block_of(s1)
        if l0 is None or l1 is None:
            return None
        k0, k1 = f"{name}@{id(v0)}", f"{name}@{id(v1)}"
        if k0 in stack or k1 in stack:
            return None

        def exits(block: list) -> bool:
            return bool(block) and isinstance(block[-1], (ast.Return, ast.Continue, ast.Break, ast.Raise))

        def cv(v, st, key):
            return self._conv(v, st, stack + (key,), depth + 1, {})

        # if/else
        if isinstance(l0[0], ast.If) and l0[0] is l1[0] and {l0[1], l1[1]} == {"body", "orelse"} and not exits(l0[0].body) and not exits(l0[0].orelse):
            ifs = l0[0]
            body_v, else_v = ((v0, s0, k0), (v1, s1, k1)) if l0[1] == "body" else ((v1, s1, k1), (v0, s0, k0))
            return self._ifexp(self._conv(ifs.test, ifs, stack, depth + 1, {}), cv(*body_v), cv(*else_v))
        # default, then conditional override
        for (va, sa, ka, la), (vb, sb, kb, lb) in (((v0, s0, k0, l0), (v1, s1, k1, l1)), ((v1, s1, k1, l1), (v0, s0, k0, l0))):
            ifs = lb[0]
            if isinstance(ifs, ast.If) and lb[1] == "body" and not exits(ifs.body) and not self._inside(sa, ifs) \
                    and not any(self._inside(e[2], b) for e in self.entries.get(name, []) for b in ifs.orelse):
                return self._ifexp(self._conv(ifs.test, ifs, stack, depth + 1, {}), cv(vb, sb, kb), cv(va, sa, ka))
        return None

    @staticmethod
    def _ifexp(test: ast.AST, body: ast.AST, orelse: ast.AST) -> ast.AST:
        """Conditional expression in canonical orientation: a negated test (`not c`, `is not`, `!=`, `not in`) is written positively
        with the arms swapped, so `a if not c else b` and `b if c else a` are the same text."""
        from .sites import normal_polarity

        t2, keep = normal_polarity(test, True)
        return ast.IfExp(test=t2, body=body if keep else orelse, orelse=orelse if keep else body)

    def text(self, e: ast.AST | None, at: ast.AST | None = None) -> str:
        if e is None:
            return ""
        return " ".join(ast.unparse(self.node(e, at)).split())

    def alts(self, e: ast.AST, at: ast.AST | None = None) -> list[str]:
        """Canonical texts an expression may stand for (the alternatives of a top-level ANY are split)."""
        out: list[str] = []

        def split(n: ast.AST) -> None:
            if isinstance(n, ast.Call) and isinstance(n.func, ast.Name) and n.func.id == "ANY":
                for a in n.args:
                    split(a)
            elif isinstance(n, ast.IfExp):
                split(n.body)
                split(n.orelse)
            else:
                t = " ".join(ast.unparse(n).split())
                if t not in out:
                    out.append(t)

        split(self.node(e, at))
        return out
