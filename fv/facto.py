"""M9: the bundled .facto library read with the repository's own grammar (Lark trees, no transformer,
no compiler), and a tiny evaluator of *selection-only* function bodies over order types."""

from __future__ import annotations

import itertools
from typing import Any

from .core import AnalysisError, Repo

try:
    import lark
    from lark import Token, Tree
except ImportError:  # pragma: no cover
    lark = None


class NotSelectionOnly(Exception):
    pass


def parse_facto(repo: Repo, rel: str):
    if lark is None:
        raise AnalysisError("lark not importable")
    grammar = repo.read_text("dsl_compiler/grammar/facto.lark")
    text = repo.read_text(rel)
    try:
        parser = lark.Lark(grammar, parser="lalr", start="start", maybe_placeholders=True)
        return parser.parse(text)
    except Exception as e:  # noqa: BLE001
        raise AnalysisError(f"{rel} does not parse with the repository grammar: {e}") from e


def functions(tree) -> dict[str, tuple[list[tuple[str, str]], list]]:
    """name -> ([(param_type, param_name)], [statement trees])"""
    out = {}
    for fd in tree.find_data("func_decl"):
        kids = fd.children
        # alias func_decl wraps the real rule of the same name
        if len(kids) == 1 and isinstance(kids[0], Tree) and kids[0].data == "func_decl":
            continue
        name = None
        params: list[tuple[str, str]] = []
        stmts = []
        for k in kids:
            if isinstance(k, Token) and k.type == "NAME" and name is None:
                name = str(k)
            elif isinstance(k, Tree) and k.data == "typed_param_list":
                for tp in k.children:
                    if isinstance(tp, Tree) and tp.data == "typed_param":
                        ptype = str(tp.children[0].children[0])
                        params.append((ptype, str(tp.children[1])))
            elif isinstance(k, Tree):
                stmts.append(k)
        if name:
            out[name] = (params, stmts)
    return out


BIN_RULES = {"logic_or", "logic_and", "comparison", "bitwise_or", "bitwise_xor", "bitwise_and", "shift", "add", "mul"}
PASS = {"expr", "primary", "atom", "output_value", "bundle_select_chain", "postfix_expr", "bundle_element", "expr_stmt", "statement_expr_stmt"}


def eval_expr(t: Any, env: dict[str, int]) -> int:
    if isinstance(t, Token):
        if t.type == "NUMBER":
            return int(str(t), 0)
        if t.type == "NAME":
            if str(t) not in env:
                raise NotSelectionOnly(f"free name {t}")
            return env[str(t)]
        raise NotSelectionOnly(f"token {t.type}")
    d = t.data
    kids = [k for k in t.children if k is not None]
    if d in PASS and len(kids) == 1:
        return eval_expr(kids[0], env)
    if d == "signal_constant":
        return eval_expr(kids[0], env)
    if d == "lvalue" and len(kids) == 1:
        return eval_expr(kids[0], env)
    if d == "output_spec":
        if len(kids) == 1:
            return eval_expr(kids[0], env)
        cond = eval_expr(kids[0], env)
        val = eval_expr(kids[-1], env)
        return val if cond != 0 else 0
    if d in BIN_RULES:
        acc = eval_expr(kids[0], env)
        i = 1
        while i + 1 < len(kids) + 0:
            op = str(kids[i])
            rhs = eval_expr(kids[i + 1], env)
            acc = _apply(op, acc, rhs)
            i += 2
        return acc
    if d == "unary":
        if len(kids) == 1:
            return eval_expr(kids[0], env)
        op, v = str(kids[0]), eval_expr(kids[1], env)
        if op == "-":
            return -v
        if op == "+":
            return v
        if op == "!":
            return int(v == 0)
    if d == "power" and len(kids) == 1:
        return eval_expr(kids[0], env)
    if d == "projection" and len(kids) == 1:
        return eval_expr(kids[0], env)
    raise NotSelectionOnly(f"construct {d}")


def _apply(op: str, a: int, b: int) -> int:
    if op == "+":
        return a + b
    if op == "-":
        return a - b
    if op in ("&&", "and"):
        return int(a != 0 and b != 0)
    if op in ("||", "or"):
        return int(a != 0 or b != 0)
    table = {"==": a == b, "!=": a != b, "<": a < b, "<=": a <= b, ">": a > b, ">=": a >= b}
    if op in table:
        return int(table[op])
    raise NotSelectionOnly(f"operator {op}")


def run_function(fn: tuple[list[tuple[str, str]], list], args: dict[str, int]) -> int:
    params, stmts = fn
    env = dict(args)
    for st in stmts:
        node = st
        while isinstance(node, Tree) and node.data in ("statement",) and len(node.children) == 1:
            node = node.children[0]
        if node.data == "decl_stmt":
            inner = node.children[0] if len(node.children) == 1 and isinstance(node.children[0], Tree) and node.children[0].data == "decl_stmt" else node
            kids = [k for k in inner.children if k is not None]
            name = str(kids[1])
            env[name] = eval_expr(kids[2], env)
        elif node.data == "return_stmt":
            inner = node.children[0] if len(node.children) == 1 and isinstance(node.children[0], Tree) and node.children[0].data == "return_stmt" else node
            kids = [k for k in inner.children if k is not None and not (isinstance(k, Token) and k.type == "RETURN")]
            return eval_expr(kids[-1], env)
        else:
            raise NotSelectionOnly(f"statement {node.data}")
    raise NotSelectionOnly("no return")


def weak_orderings(names: list[str]) -> list[dict[str, int]]:
    """One representative valuation per weak ordering of names together with 0 (0 pinned to 0; ranks spaced by 7)."""
    items = names + ["<0>"]
    out = []
    seen = set()
    n = len(items)
    for ranks in itertools.product(range(n), repeat=n):
        used = sorted(set(ranks))
        if used != list(range(len(used))):
            continue
        key = ranks
        if key in seen:
            continue
        seen.add(key)
        zero_rank = ranks[-1]
        out.append({nm: (r - zero_rank) * 7 for nm, r in zip(names, ranks[:-1])})
    return out
