"""Dump (rule, construct, status) of every obligation of every property for one tree (FV_REPO, default /repo) as JSON lines.
usage: python3 tools/dump_obs.py <out.jsonl> [Cxx ...]"""
import importlib, json, os, sys
sys.path.insert(0, os.path.join(os.path.dirname(os.path.abspath(__file__)), ".."))
from concurrent.futures import ProcessPoolExecutor
from pathlib import Path


def one(prop):
    from fv.core import Repo, Report, AnalysisError
    mod = importlib.import_module(f"fv.rules.{prop.lower()}")
    rep = Report(prop, "selftest")
    try:
        mod.run(Repo(Path(os.environ.get("FV_REPO", "/repo"))), rep, "quick")
    except AnalysisError as e:
        return prop, [["ANALYSIS-ERROR", str(e), "error"]]
    return prop, sorted([o.rule, o.construct, o.status] for o in rep.obs)


if __name__ == "__main__":
    props = sys.argv[2:] or [json.loads(l)["id"] for l in open("/verif/properties.jsonl")]
    with ProcessPoolExecutor(16) as ex, open(sys.argv[1], "w") as f:
        for prop, obs in ex.map(one, props):
            for o in obs:
                f.write(json.dumps([prop] + o) + "\n")
            print(prop, len(obs))
