#!/bin/bash
# Design-time regression helper (never used by a check): run the demonstration script of every seeded defect against a tree WITHOUT the
# seed.  Each demo exits 0 when the property holds for its scenario, so on a tree where my repairs are right all of them exit 0; a demo that
# fails names a behaviour that one of the `fix:` commits broke (this is how the regression of 4272469 was found).
# usage: tools/replay_demos.sh [<commit>=HEAD] [<jobs>=5]      (reads /verif/seeded/*/*/demo.py, writes /tmp/demo_results.txt)
commit=${1:-HEAD}; jobs=${2:-5}
tmp=$(mktemp -d /tmp/demohead_XXXX)
git -C /repo archive "$commit" | tar -x -C "$tmp"
: > /tmp/demo_results.txt
ls -d /verif/seeded/*/*/ | while read d; do [ -f "$d/demo.py" ] && echo "${d%/}"; done |
  xargs -P "$jobs" -I{} bash -c 'cd '"$tmp"' && timeout 1500 env PYTHONPATH='"$tmp"' /venv/bin/python {}/demo.py > /dev/null 2>&1; echo "{} exit=$?" >> /tmp/demo_results.txt'
rm -rf "$tmp"
echo "demos: $(grep -c exit= /tmp/demo_results.txt), failing: $(grep -vc 'exit=0' /tmp/demo_results.txt)"
grep -v 'exit=0' /tmp/demo_results.txt
