"""Assemble /verif/seeded/<prop>/<name>/ from the sub-agents' deliveries and my own confirmation runs.
usage: python3 tools/mkseeded.py <seedout-root> <confirm-results.json> [<seed-matrix.json>]

Per seed: patch.diff, demo.py, notes.md (the author's notes, verbatim) and meta.json:
  property, title, clause, needs_to_manifest  (taken from the notes' sections),
  confirmation  (what I ran myself in a scratch worktree: tree head, demo without / with the patch, full suite with the patch,
                 re-run of load-sensitive failures),
  detected_by   (which of my checks report it, from tools/seed_matrix.py).
Only seeds whose confirmation succeeded (demo 0 -> 1, suite as on the unchanged tree) are written."""
import json, os, re, shutil, sys

root, confirm = sys.argv[1], json.load(open(sys.argv[2]))
matrix = json.load(open(sys.argv[3])) if len(sys.argv) > 3 and os.path.exists(sys.argv[3]) else {}
PREFIX = sys.argv[4] if len(sys.argv) > 4 else ""  # e.g. "w4-" for the fourth wave: seeded/<prop>/w4-m1
OUT = "/verif/seeded"
WHY_MISSED = json.load(open(os.path.join(OUT, "why_missed.json"))) if os.path.exists(os.path.join(OUT, "why_missed.json")) else {}  # seed -> why its own property does not report it


def section(text: str, *keys: str) -> str:
    parts = re.split(r"^## +", text, flags=re.M)
    for p in parts[1:]:
        head, _, body = p.partition("\n")
        if any(k in head.lower() for k in keys):
            return " ".join(body.strip().split())[:1500]
    return ""


kept = skipped = 0
for name, r in sorted(confirm.items()):
    ok = r.get("done") and r.get("demo_clean_exit") == 0 and r.get("demo_patched_exit") == 1 and r.get("suite_ok")
    src = os.path.join(root, name)
    if not ok or not os.path.isdir(src):
        skipped += 1
        print("skip", name, {k: r.get(k) for k in ("applies", "demo_clean_exit", "demo_patched_exit", "suite_ok")})
        continue
    dst = os.path.join(OUT, name.split("/")[0], PREFIX + name.split("/")[1])
    os.makedirs(dst, exist_ok=True)
    for f in ("patch.diff", "demo.py", "notes.md"):
        if os.path.exists(os.path.join(src, f)):
            shutil.copy2(os.path.join(src, f), os.path.join(dst, f))
    for extra in os.listdir(src):  # helper modules a demo imports
        if extra.endswith(".py") and extra != "demo.py":
            shutil.copy2(os.path.join(src, extra), os.path.join(dst, extra))
    notes = open(os.path.join(src, "notes.md")).read() if os.path.exists(os.path.join(src, "notes.md")) else ""
    title = notes.splitlines()[0].lstrip("# ").strip() if notes else name
    meta = {
        "property": name.split("/")[0],
        "seed": name.split("/")[0] + "/" + PREFIX + name.split("/")[1],
        "title": title,
        "clause_broken": section(notes, "clause"),
        "needs_to_manifest": section(notes, "needs", "trigger", "manifest"),
        "confirmation": {
            "what_i_ran": "scratch git worktree of /repo at the head below; `python demo.py` without the patch, `git apply patch.diff`, `python demo.py` with it, "
                          "then the repository's full test suite with the patch (pytest -n 8); failures other than the two always-failing sandbox tests "
                          "(tests/test_cli.py::TestCliCoverageGaps) were re-run alone once (they are solver/markdown time-outs under machine load)",
            "tree_head": r.get("head"),
            "demo_exit_without_patch": r.get("demo_clean_exit"),
            "demo_exit_with_patch": r.get("demo_patched_exit"),
            "demo_tail_with_patch": r.get("demo_patched_tail"),
            "suite_with_patch": r.get("suite_summary"),
            "rerun_alone": r.get("rerun_alone"),
            "suite_ok": r.get("suite_ok"),
        },
        "detected_by": matrix.get(name, {}).get("detected_by"),
        "detection_details": matrix.get(name, {}).get("details"),
    }
    if meta["seed"] in WHY_MISSED:
        meta["why_missed"] = WHY_MISSED[meta["seed"]]
    json.dump(meta, open(os.path.join(dst, "meta.json"), "w"), indent=1)
    kept += 1
print(f"written {kept}, skipped {skipped}")
