"""Regenerate /verif/MANIFEST.json from the table below (keeps the manifest valid at all times)."""
import json, os, sys
HERE = os.path.dirname(os.path.dirname(os.path.abspath(__file__)))
ids = [json.loads(l)["id"] for l in open(os.path.join(HERE, "properties.jsonl"))]

LEVEL_NOTE = ("Trusted base: CPython's ast module and the checker's own model of the analysed Python constructs "
              "(statement CFG, constructor-based resolver, constant evaluator). The check decides the named structural "
              "clauses, which are necessary conditions of the property; it does not execute the compiler or a blueprint "
              "and does not establish the run-time behaviour.")

CLAIMS = {
 "C10": dict(
   text="Static analysis (exhaustive over a finite set of code sites): every optimizer rewrites/inspects every reference slot of the IR schema; "
        "the CSE key covers every behavioural field of the node classes it merges (exceptions re-verified structurally); folding guards every consulted "
        "operand against user-declared inputs and keeps the output type; both pipelines run the passes in order under the optimize flag; the spanning tree "
        "stays inside one (signal, colour, source) group. Decides these necessary conditions, not observational equivalence of the two builds. A folded single-condition decider keeps `output constant if comparison else 0` (R9). Also: condition-row fields enter the CSE key off the row being keyed, the constant table admits scalar constants only, the planner receives the re-pointed name table, the plan keeps every wire.",
   technique="IR-schema exhaustiveness over isinstance ladders (ast), def-use slices, sibling-pipeline comparison",
   ref="DESIGN.md §2 C10"),
 "C11": dict(
   text="Static analysis, exhaustive over the finite table (folding site x DSL operator): folding sites are discovered by role (operator-dispatch "
        "functions over two int operands; Python arithmetic on values tainted by literal/IRConst values), the return behaviour of each site per operator "
        "is extracted by path enumeration into terms over the operands, normalised by idiom recognition (32-bit wrap, truncating division, C remainder) "
        "and classified CONFORMS / DEVIATES(kind) / UNRECOGNISED against Factorio's table from the property text. No numbers are evaluated. "
        "The arithmetic clause of the property is a statement about exactly this table; the 'replace a constant by an input' reading through the emitted circuit is not decided.",
   technique="path-enumerating term extraction + idiom normalisation + table classification over ast; taint-based site discovery",
   ref="DESIGN.md §2 C11"),
 "C14": dict(
   text="Static analysis over the analysis stage (parser, semantic analyzer, symbol table, diagnostics): an inventory of the 24 guard shapes that recognise the documented "
        "static rules, each required to reach an error-severity diagnostic or raise (a recognised guard that only warns = downgraded; an anchor without the guard = not enforced); "
        "error() counts or raises on every CFG path; both pipelines use raise_errors=True and gate each stage; no broad handler swallows; mains write the result only after the success "
        "test; statement lists are visited on every path; type tables are exhaustive over the grammar's type keywords; checks cover every AST slot of their subject. "
        "Decides that each rule is enforced in the single visitor every context goes through, not 'all embeddings' as such. Also: the signal validator accepts on table membership only, inferred types are never mutated in place, dynamic bundle selection validates the selected name. An explicit signal name is never dropped unvalidated when a literal is taken apart (R14), the lowering refuses a second write to a cell (R15), a selection is accepted only for a member or a run-time bundle (R16).",
   technique="guard-chain extraction of diagnostic sites + role predicates, CFG must-pass-through, grammar/table exhaustiveness",
   ref="DESIGN.md §2 C14"),
 "C15": dict(
   text="Static analysis of the inliner: the set of ASTLowerer maps that statement lowering can mutate is computed over the call graph; for each, a snapshot must dominate the "
        "lowering of the callee body and a restore must lie on every normal exit (CFG, finally-aware); the parameter environment must be replaced, not merged; every id a declaration "
        "registers must have a per-instance counter in its backward slice; wildcard signals never become actual-argument types. Decides hygiene of the inliner's bookkeeping, not "
        "equivalence with the manually inlined program. Also: name tables are restored from snapshots after a callee body, in-place retyping scans every name table, parameters are unbound after the call, memory ids are fresh per expansion and the memory maps are saved/restored. The re-declaration probe uses the creation node's id (R17), local declarations are typed by their own symbol (R19), a nested call is lowered in the outermost call site's name maps (R20). Entity parameters are bound after every re-seating (R24), parameters are looked up first (R25), the scoped memory record answers before the program-wide table (R26), body-local ints stay compile-time integers (R27), counter ids are probed until free (R28).",
   technique="call-graph effect analysis + CFG dominance/must-pass-through for save/restore pairing + def-use slices for id freshness",
   ref="DESIGN.md §2 C15"),
 "C16": dict(
   text="Static analysis: the iteration-sequence function must match an accepted idiom (strict exclusive end per direction, append before advance, start from start, list order kept); "
        "analyzer and lowerer both draw from that one function; resolvers raise instead of defaulting; per-iteration scope save/cut-back for every map the body can mutate; iterator "
        "immutable; declaration ids fresh per iteration; transformer passes start/stop/step/values in grammar order. Decides these necessary conditions, not equivalence with the unrolled program. Loop scope is restored by value for the names an iteration binds; the analyzer rewrites shared syntax nodes only with functions of the syntax (R6); resolvers prefer parameters over iterators (R7). Also: explicit node ids contain an IR-level id, the iterator survives calls in the body (snapshot restore), memory maps are cut back per iteration. The step is taken whether it is a number or a name; iteration names shadow parameters (R11). The analyzer knows the iterator's value (R12); the lowering reads no number out of the analyzer's per-node type cache (R13).",
   technique="idiom matching over ast + CFG + call-graph effect analysis + def-use slices",
   ref="DESIGN.md §2 C16"),
 "C13": dict(
   text="Static analysis over constant-evaluated tables and slot traces: the allocatable list minus the exclusion set (which must name RESERVED_SIGNALS and WILDCARD_SIGNALS whenever the list "
        "contains one of them) can yield neither a wildcard nor the write-enable signal; the three reserved tables agree; the allocator returns pool members only; contributions to the exclusion "
        "sets are classified by the AST attribute they read (variable name vs signal name) and an explicit built-in signal name must reach it; explicit names pass name resolution unchanged. "
        "Decides these table/flow clauses, not the renaming-invariance consequence. IR-derived signal properties of combinator placements pass through a name resolver (R4); the CSE key separates output types (R5). Also: one counter for internal names (no captured piece of a registry), a usage entry answers for its own node only, the variable's name is never a signal candidate when a type is known, bundle-literal members are registered. A bundle literal holds each channel once under a bare membership test (R10), the pool cursor hands out each entry once (R11), a simplified projection carries its own target (R12), a local constant is typed by its own symbol only (R13).",
   technique="constant evaluation of tables + def-use slot tracing with kind classification + guard-chain analysis",
   ref="DESIGN.md §2 C13"),
 "C17": dict(
   text="Static analysis: CFG dominance of the processed-files guard (skip test + record, keyed by the resolved path, shared set, seeded with the starting file) around every recursive "
        "expansion; the default search path is constant-evaluated with __file__ bound to the module's location and every documented spelling of every bundled library import must resolve "
        "through an absolute entry; the selection-only library functions (abs, sign, min, max, clamp, between, skeleton of mod_positive) are parsed with the repository grammar and checked "
        "on one representative of every weak ordering of their arguments and 0, which is an exact finite abstraction for bodies built from comparisons and selections. lerp, the bit "
        "functions, div_floor and the arithmetic of mod_positive are not decided (32-bit identities need a solver or evaluation); 'import == pasted text' beyond R1/R2 is not decided. Folding of `cond : value` deciders keeps a selected 0 (R4, shared with C10-R9). Also: the front ends hand the parser a source name that keeps the file's directory; bit helpers fold like run-time shifts.",
   technique="CFG dominance + constant evaluation of the search path + order-type enumeration over Lark parse trees of lib/math.facto",
   ref="DESIGN.md §2 C17"),
 "C09": dict(
   text="Static analysis: def-use chain of the coordinates from place() arguments to IRPlaceEntity, placement and entity.position; every store into a position mapping returned by the "
        "layout engine must be a solver value of the entity's own singleton-domain variables, the fixed table entry, or guarded by not-fixed; a unit typestate (tile until the conversion, "
        "centre after) is checked for every centre-reader reachable (exact call graph) from the phases that run before the conversion; who-may-delete over all deletion sites of placements "
        "(keys must derive from the pole flag, unused memory gates or the inlined decider id; a committed positive fixture keeps the matcher honest); static properties are copied except "
        "bookkeeping keys. Emitted coordinates under solver outcomes are covered only through this structural argument; whether draftsman accepts a property is not decided. Also: the declared tile size takes precedence over the collision-box estimate (with the differing prototypes listed from game data).",
   technique="def-use slices + guard-chain analysis + call-graph reachability with a unit typestate + who-may-delete table",
   ref="DESIGN.md §2 C09"),
 "C08": dict(
   text="Static analysis with the game-data tables as oracle: every CP-SAT invocation is dominated (CFG) by the posting of AddNoOverlap2D over intervals for all entity ids built from ceiled "
        "footprints; every literal (prototype, footprint) pair and the pole table cover the prototype's collision box; every wire-span default is within the reach of every emitted entity type "
        "and of every prototype that can become a relay node; the router answers 'no relay' only within the limit and re-checks each hop; wires are materialised only between existing entities "
        "with one colour. NOT decided: wire reach and overlap under every layout outcome (span limits are soft in the solver, explicit memory/latch wires bypass routing, the fallback grid "
        "ignores fixed entities when placing the rest) — these depend on CP-SAT's answer. Also: the tile grid is rebuilt between every placement-changing step and connection planning (callee summaries), a relay is registered at the position its pole is placed.",
   technique="CFG dominance + constant tables checked against draftsman prototype data + guard-chain analysis",
   ref="DESIGN.md §2 C08"),
 "C18": dict(
   text="Static analysis with the game-data tables as oracle: POWER_POLE_CONFIG rows vs prototype data (supply area, copper reach, collision box); grid step expression <= 2 x radius in both axes and "
        "first-pole offset; option gating by CFG dominance and value flow from both CLIs; pole creators enumerated; copper connection guarded by the reach of both poles; trim decisions guarded by "
        "the grid-pole flag and the coverage test. NOT decided: coverage of every consumer for a given layout, single electric network, behaviour unchanged by poles. The grid's bounding-box accumulators start on the origin side, as required by the recognised extent formulas. Also: no placement is removed once connections are planned; grid poles keep their positions on the decomposition path (recorded finding).",
   technique="constant tables vs draftsman prototype data + CFG dominance + guard-chain analysis + value-flow through the pipelines",
   ref="DESIGN.md §2 C18"),
 "C19": dict(
   text="Static analysis: syntactic set-type inference over all logical modules; every iteration/ordering conversion over a set must be sorted, have an order-insensitive body (recognised "
        "statement forms) or be one of three frozen allow-list entries with reasons; id()/hash() only as lookup keys; every write to process-global state (draftsman signal table, os.environ, "
        "module-level mutables) is classified by whether the written value is program-derived, against the decision-reads of the same state; logical configuration values have no position in "
        "their backward slice and position-derived spanning-tree keys may only add, never replace, a recorded edge colour. Independence from solver time budget/CPU load as such is not decided; "
        "R4 is the structural reason positions cannot leak into logic. Insertion order taken from an unsorted set iteration taints the container it fills; the importing file's directory is searched before cwd-relative entries (R5). Also: module-level mutables are not mutated through local aliases; relay reuse is booked (network partition independent of placement); the source name does not depend on the working directory.",
   technique="set-type inference lint + effect analysis on process-global state + def-use layering slices",
   ref="DESIGN.md §2 C19"),
 "C05": dict(
   text="Static analysis: the priority flag is traced from the grammar alias (order of SET_KW/RESET_KW in the expansion) through the transformer constant, WriteExpr, both lowering paths "
        "and IRLatchWrite; every latch-building handler must select its condition rows by op.latch_type (sibling contradiction check); the hold-inversion table is evaluated as data and must be "
        "total over the comparators lowering can pass and equal to logical negation over the integers; the feedback wire colour must equal the colour the feedback row and the multiplier read, "
        "external rows read the other colour, and the planner's wire injection must not overwrite the preset selections. NOT decided: the hold/priority behaviour of the emitted rows under "
        "Factorio's evaluation order and any behaviour over input histories. Also: value, set and reset of a latch write are exported (constants feeding them are placed); operand wire selections default to both colours.",
   technique="grammar-to-IR value-flow trace + sibling-handler contradiction check + constant-table semantics + colour agreement over dict displays",
   ref="DESIGN.md §2 C05"),
 "C07": dict(
   text="Static analysis: the two compile functions are compared as normalised stage traces (sibling cross-check), the two mains by the options they pass and by how `result` reaches "
        "stdout / -o; the success result must be exactly to_string()/json.dumps(to_dict()) of the emitted blueprint; emission iterates all placements and wires, skips a wire only for a "
        "missing endpoint, errors on a missing entity, dispatches each combinator type; bag-key agreement: every configuration key any producer writes for a combinator kind (and every "
        "condition-row key) is read by that kind's configurator and vice versa. NOT decided: what draftsman's exporter writes for the configured entities (in this image its to_dict() drops "
        "control_behavior — third-party run-time behaviour, outside the reach of source analysis of /repo), and equality of behaviour between decoded text and plan. Also: the materialiser's configuring loops have no early exit, the plan records every wire it is given (duplicates only on ends, sides and colour), stdout carries the result only (verbosity-guarded echoes, logging on stderr).",
   technique="sibling-implementation trace comparison + writer/reader bag-key agreement + CFG/guard-chain checks",
   ref="DESIGN.md §2 C07"),
 "C03": dict(
   text="Static analysis: the two gate placements are compared as data (same signal, same constant, comparators complementary over the integers around the constant, copy-count, same output); "
        "typestate of the enable in the lowerer (every signal-valued enable is retyped to the gates' signal; the two constant-one recognisers agree; the enable sinks on both gates; the signal "
        "is reserved and excluded from allocation); the two explicit wires and the planner's colour locks agree; reads are sourced by the hold gate; gate keys are read by the configurator; "
        "both optimizers re-point both operands of a memory write. NOT decided: holding across an enable edge, one-tick glitches, arbitrary data expressions, readers not disturbing the value. Also: only node classes placed with an output signal of their own are retyped in place (a memory read is not), the feedback rewrite touches reads of its own cell only. A constant-one reference is exempt from retyping only on the enable signal. Only a constant-output decider is retyped in place as the enable (exact class, no pass-through gate); CSE tells reads of different cells apart (R14). Known finding: the hold gate's output is pinned to one colour, two cells on one signal read together collide (R15).",
   technique="table semantics over placement literals + CFG typestate + colour agreement + bag-key agreement + IR-schema slots",
   ref="DESIGN.md §2 C03"),
 "C04": dict(
   text="Static analysis (thin, stated as such): guard dominance of the arithmetic-feedback rewrite; on every path that records the optimisation the gates are flagged, the source and every "
        "recorded read re-pointed (CFG must-pass-through); the feedback flag has a reader that adds an output->input self-wire whose colour equals the planner's lock; chains register last->first; "
        "the dependence walk and first-consumer search inspect both operands; reverse/self edges are classified bidirectional without extra exclusions and routed directly. NOT decided: the latency L, "
        "value(t+L) = f(value(t)), equality of folded and unfolded forms — tick dynamics. Also: old producers of the cell and of its earlier reads are cleared before the arithmetic node is added; colour entries under reversed or spanning-tree keys never replace a recorded edge. Inputs on a folded cell's own signal are locked to the other colour than the loop wire (R10), a folded cell's output is not pinned to a colour (R11), relays are shared only through can_route_network (R9). The arithmetic configurator keeps operand wire selections on their sides (R12), CSE keeps the loop's output signal (R13).",
   technique="CFG dominance/must-pass-through + writer/reader key agreement + guard-chain analysis",
   ref="DESIGN.md §2 C04"),
 "C06": dict(
   text="Static analysis of the four sibling branches of the emitter's property-write code and of the two inlining paths: a plain signal becomes `signal > 0` with the condition enabled in "
        "every spelling; an inlined comparison is taken only for `signal CMP int -> 1` deciders whose only consumer (complete usage index) is the property write, its three values are passed "
        "unchanged through comparison_data to the circuit condition, removal is scheduled only there and the entity is re-wired to the decider's input; any()/all() inlining accepts only "
        "`CMP constant`, maps to the right wildcard and passes operator/constant unchanged; entity outputs are sourced by the entity. NOT decided: that the named signal arrives alone and "
        "undoubled on the entity's connector for a given layout; entity contents. A comparison exposed under a name of its own is not inlined away; the condition is set on entities "
        "without an enable flag too; the condition's signal carries the category of its own name (R13).",
   technique="sibling-branch comparison + key/value pass-through over dict displays + guard-chain analysis",
   ref="DESIGN.md §2 C06"),
 "C12": dict(
   text="Static analysis (thin, stated as such) of the one mechanism that keeps networks apart where the compiler adds shared infrastructure: network ids keyed by (source, colour) with a "
        "counter that advances per new key; the id of the edge's own source group reaches the relay router on both routing paths; relays are offered for reuse only after can_route_network "
        "(whose body must be `colour free or same id`) and every hop used is recorded; the conflict graph groups by (sink, resolved signal), exempts only same-merge pairs and pushes the opposite "
        "colour to neighbours. NOT decided: non-interference itself — two sources of different signals feeding one sink on one colour join their networks by design; whether anything of P becomes "
        "visible in Q is a property of the whole wired graph under a given layout. Also: the returned-entity side channel is reset before and bound after each call without further conditions; parameters bound for a call are unbound after it. Conflicts are also built from each source's fan-out (R10); relay lookup helpers are held to the same isolation test as loops. Merge ids are ordered numerically where the order picks a colour (R12); names in a function body are resolved among its parameters first (R13), memories are typed by their own declaration (R14).",
   technique="CFG/guard-chain checks on the network-id and relay-reuse code + structural check of the conflict-graph construction",
   ref="DESIGN.md §2 C12"),
 "C01": dict(
   text="Static analysis of clauses (a)-(d): the precedence ladder and associativity are computed from the compiled grammar and compared with the documented strict order between operator "
        "literals (rule names are irrelevant); the transformer's nesting (left-nested chains, right-nested power, unary, and/or normalisation); agreement of the operator tables (grammar, "
        "analyzer, lowerer, DSL->Factorio map) and dispatch; operand order from the AST through builder, IR, placement keys to the first/second slots of the emitted combinator; the builder "
        "terms of && / || are extracted per path and evaluated in the checker's own combinator algebra over {-2..2}^2 against the documented truth value; chain folding only over one operator; "
        "the result-type decision table; spanning-tree colour keys never replace a logical edge's colour. NOT decided: clause (e) — that the wiring delivers each operand alone on the colour "
        "the combinator reads, constant inlining, settling for every input. A typed literal keeps its value expression on every lowering path (R8). Also: no decider condition is assembled with a constant and a second signal together (constant-first comparisons are mirrored, rows of two constants are decided at emission and compare the placeholder with 0), literal operands are recorded as constants, operand wire selections default to both colours, copy-count mode is dropped only for a reference that was inlined. A pass-through gate outputs the signal it copies and is never renamed by a folded projection (R17), a wire-merge operand is read on the colour of its parts (R16), a suppressed value with a live reader is kept (R18), sources that meet through a shared third source are separated (R19). Operands keep their sides into every compile-time evaluator (R22), `&&`/`||` take the arithmetic shortcut only for real booleans (R23), optional integers are tested with `is None` (R21); one known finding: a source used twice by one combinator gets one colour (R20).",
   technique="grammar-model ladder check + table agreement + def-use operand-order trace + extracted-term evaluation in a small algebra",
   ref="DESIGN.md §2 C01"),
 "C02": dict(
   text="Static analysis: the wildcard each bundle constructor uses is compared with the Factorio meaning of the operation (each for member-wise map/filter, everything for gating and all(), "
        "anything for any(), identical in the lowerer and in the inlined entity condition); the separation flag is set wherever a signal-valued scalar/condition meets a bundle, forwarded by "
        "the placer for both node kinds, consumed by the planner which locks one input to the non-default colour, and the wire selection stored for an operand with a resolved source is a "
        "single looked-up colour; a constant literal member is recorded once (CFG); duplicate detection treats nested-bundle members like direct members (sibling-branch check). NOT decided: "
        "that no foreign signal is present on the bundle's wire for a given program/layout, merge colouring outcomes, filter values at run time. Also: every announced scalar member of a bundle literal is delivered (must-pass over the element loop), nested merges are expanded transitively, `-b` is decided member-wise before scalar nodes are built, a defaulted constant is extracted with the symbol resolver, both decider forms (gate, filter) and both sides of a gate condition get wire separation, explicit member names pass the resolver on the name alone. A wildcard compared with a signal is separated from it (R14), bundle constants are never inlined as numbers (R15), the gating lock reaches the producers of a merged bundle (R16), wildcard rows of folded conditions get their colour (R17). No projection is folded into a bundle operation (R18), every form of `cond : bundle` builds the bundle gate (R19). Known finding: wildcard rows of a multi-condition decider are not separated from signal rows (R20).",
   technique="table check of wildcard roles + flag-chain def-use + CFG exclusivity + sibling-branch comparison",
   ref="DESIGN.md §2 C02"),
 "C20": dict(
   text="Static analysis (thin): names are marked referenced only on the identifier read path; every anchor placement is followed on all paths by the wiring call (CFG), anchor ids are a "
        "function of (signal, alias), constants are skipped only under their own name; debug_info keys written by the placers are read by the description formatter (bag agreement), declared "
        "names override node ids, inputs and anchors are labelled; the is_output formula; every reason to materialise a constant is still a disjunct. NOT decided: that the anchor's network "
        "carries exactly the result's value. Names follow their node through node-eliminating passes (R6); the declared-name override of a label has no extra condition. Also: bundle names follow replacements and enter the alias map, the placeholder label is used only without a variable, the parser receives the source with its leading lines (line numbers), later reads of a folded cell are wired.",
   technique="CFG must-pass-through + bag-key agreement + formula/guard-chain checks",
   ref="DESIGN.md §2 C20"),
}
NA_DEFAULT = "check not built yet (build phase in progress); see DESIGN.md for the planned rules"
NA = {}

checks = []
for pid in ids:
    if pid in CLAIMS:
        c = CLAIMS[pid]
        checks.append({
            "property_id": pid,
            "quick_cmd": f"./check {pid} --tier quick",
            "thorough_cmd": f"./check {pid} --tier thorough",
            "evidence_file": f"/verif/evidence/{pid}.json",
            "replay_cmd_template": f"./check {pid} --replay {{path}}",
            "engine": "fv",
            "level_claimed": {"category": "other", "text": c["text"], "design_ref": c["ref"]},
            "level_note": LEVEL_NOTE,
            "technique": c["technique"],
        })
m = {
 "version": 1,
 "setup_cmd": "true",
 "hooks": {"guard": "SNAGNAR_FACTOMPILER_VERIF",
           "enable": "none needed: static analysis reads /repo source; no hook commits exist, the guard name is reserved",
           "baseline_off_cmd": "cd /repo && /venv/bin/python -m pytest -q -p no:cacheprovider --timeout=900",
           "source_commits": [], "add_only": True},
 "engines": [{"name": "fv", "path": "/verif/fv", "serves_properties": sorted(CLAIMS),
              "kind_free_text": "repository-specific static analyser: ast source model, statement CFG + dominators, constructor-based resolver/call graph, def-use slices, IR-schema and bag-key agreement rules, constant-evaluated tables; stdlib only, run with /venv/bin/python"}],
 "checks": checks,
 "notes": "Every check re-parses /repo on each run (FV_REPO overrides the root for self-tests). Exit 0 = all obligations discharged (listed known findings are printed as KNOWN-FINDING); exit 1 = VIOLATION lines; exit 2 = ANALYSIS-ERROR/INCONCLUSIVE (anchor vanished, vacuity floor, unrecognised idiom). Genuine defects: /verif/known_findings.json.",
 "not_applicable": [{"property_id": i, "reason": NA.get(i, NA_DEFAULT)} for i in ids if i not in CLAIMS],
}
json.dump(m, open(os.path.join(HERE, "MANIFEST.json"), "w"), indent=1)
print("claimed", sorted(CLAIMS), "n/a", len(m["not_applicable"]))
