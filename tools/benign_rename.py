"""Behaviour-preserving variant generator: rename every function-local variable in a scratch copy of /repo (see fv/variants.py).
usage: benign_rename.py <dst-dir> [suffix] [--with-tests]"""
import os, sys
sys.path.insert(0, os.path.join(os.path.dirname(os.path.abspath(__file__)), ".."))
from fv.variants import make_rename

args = [a for a in sys.argv[1:] if not a.startswith("--")]
n = make_rename(os.environ.get("FV_REPO", "/repo"), args[0], args[1] if len(args) > 1 else "_rn", "--with-tests" in sys.argv)
print("renamed", n, "name occurrences")
