"""Behaviour-preserving variant generator: rename every function-local variable (not parameters, not globals/nonlocals, not names
shared with nested functions) in every module of a scratch copy of /repo.  usage: benign_rename.py <dst-dir> [suffix]"""
import ast, os, shutil, sys

dst = sys.argv[1]
suffix = sys.argv[2] if len(sys.argv) > 2 else "_rn"
shutil.rmtree(dst, ignore_errors=True)
os.makedirs(dst)
for item in ("compile.py", "dsl_compiler", "lib", "doc", "example_programs", "README.md", "LANGUAGE_SPEC.md"):
    src = os.path.join("/repo", item)
    if os.path.isdir(src):
        shutil.copytree(src, os.path.join(dst, item), ignore=shutil.ignore_patterns("__pycache__", "*.pyc", "*.png", "*.gif", "tests"))
    elif os.path.exists(src):
        shutil.copy2(src, os.path.join(dst, item))


def local_walk(fn):
    stack = list(fn.body)
    while stack:
        n = stack.pop()
        yield n
        for c in ast.iter_child_nodes(n):
            if isinstance(c, (ast.FunctionDef, ast.AsyncFunctionDef, ast.ClassDef, ast.Lambda)):
                continue
            stack.append(c)


def rename_function(fn):
    params = {a.arg for a in fn.args.posonlyargs + fn.args.args + fn.args.kwonlyargs}
    if fn.args.vararg:
        params.add(fn.args.vararg.arg)
    if fn.args.kwarg:
        params.add(fn.args.kwarg.arg)
    declared = set()
    nested_names = set()
    for n in ast.walk(fn):
        if isinstance(n, (ast.Global, ast.Nonlocal)):
            declared |= set(n.names)
        if n is not fn and isinstance(n, (ast.FunctionDef, ast.AsyncFunctionDef, ast.Lambda, ast.ClassDef)):
            for x in ast.walk(n):
                if isinstance(x, ast.Name):
                    nested_names.add(x.id)
                if isinstance(x, ast.arg):
                    nested_names.add(x.arg)
    stores = set()
    for n in local_walk(fn):
        if isinstance(n, ast.Name) and isinstance(n.ctx, ast.Store):
            stores.add(n.id)
        if isinstance(n, ast.ExceptHandler) and n.name:
            declared.add(n.name)
        if isinstance(n, (ast.Import, ast.ImportFrom)):
            for al in n.names:
                declared.add((al.asname or al.name).split(".")[0])
    targets = {s for s in stores if s not in params and s not in declared and s not in nested_names and not s.startswith("__") and s != "_"}
    count = 0
    for n in local_walk(fn):
        if isinstance(n, ast.Name) and n.id in targets:
            n.id = n.id + suffix
            count += 1
    return count


total = 0
for root, _d, files in os.walk(dst):
    for fnm in files:
        if not fnm.endswith(".py"):
            continue
        p = os.path.join(root, fnm)
        src = open(p).read()
        tree = ast.parse(src)
        for n in ast.walk(tree):
            if isinstance(n, (ast.FunctionDef, ast.AsyncFunctionDef)):
                total += rename_function(n)
        open(p, "w").write(ast.unparse(tree) + "\n")
print("renamed", total, "name occurrences")
