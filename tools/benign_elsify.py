"""Behaviour-preserving variant generator: invert early exits (early `continue` -> nested if; if/else arms swapped under the negated test)
in a scratch copy of /repo (see fv/variants.py).  usage: benign_invert.py <dst-dir> [--with-tests]"""
import os, sys
sys.path.insert(0, os.path.join(os.path.dirname(os.path.abspath(__file__)), ".."))
from fv.variants import make_elsify

args = [a for a in sys.argv[1:] if not a.startswith("--")]
n = make_elsify(os.environ.get("FV_REPO", "/repo"), args[0], "--with-tests" in sys.argv)
print("elsified", n, "early exits")
