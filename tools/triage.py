"""Design-time triage helper (NOT part of any check): run the real compiler on a source text and
show IR / layout-plan details so a static finding can be confirmed with a concrete input.
usage: PYTHONPATH=/repo /venv/bin/python tools/triage.py [--no-opt] [--ir] [--plan] [--poles T] 'source' """
import sys, os, argparse
sys.path.insert(0, os.environ.get("FV_REPO", "/repo"))

def build(src, optimize=True, poles=None, plan=True, name="<string>"):
    from dsl_compiler.src.common.diagnostics import ProgramDiagnostics
    from dsl_compiler.src.parsing.parser import DSLParser
    from dsl_compiler.src.semantic.analyzer import SemanticAnalyzer
    from dsl_compiler.src.lowering.lowerer import ASTLowerer
    from dsl_compiler.src.ir.optimizer import ConstantPropagationOptimizer, CSEOptimizer
    from dsl_compiler.src.layout.planner import LayoutPlanner
    d = ProgramDiagnostics(log_level="error", raise_errors=True)
    prog = DSLParser().parse(src.strip(), name)
    an = SemanticAnalyzer(diagnostics=d); an.visit(prog)
    lo = ASTLowerer(an, d); ir = lo.lower_program(prog)
    ir0 = list(ir)
    if optimize:
        # same order as compile_dsl_source: each pass, then the name table follows its replacements
        try:
            from dsl_compiler.src.ir.optimizer import repoint_signal_refs
        except ImportError:
            repoint_signal_refs = lambda refs, repl: None
        cp = ConstantPropagationOptimizer(); ir = cp.optimize(ir); repoint_signal_refs(lo.signal_refs, getattr(cp, "replacements", {}))
        cse = CSEOptimizer(); ir = cse.optimize(ir); repoint_signal_refs(lo.signal_refs, getattr(cse, "replacements", {}))
    lp = None
    if plan:
        pl = LayoutPlanner(lo.ir_builder.signal_type_map, diagnostics=d, signal_refs=lo.signal_refs,
                           referenced_signal_names=lo.referenced_signal_names, power_pole_type=poles,
                           use_mst_optimization=optimize)
        lp = pl.plan_layout(ir, blueprint_label="t", blueprint_description="")
    return ir0, ir, lp, lo, d

if __name__ == "__main__":
    ap = argparse.ArgumentParser()
    ap.add_argument("src"); ap.add_argument("--no-opt", action="store_true"); ap.add_argument("--ir", action="store_true")
    ap.add_argument("--plan", action="store_true"); ap.add_argument("--poles", default=None)
    a = ap.parse_args()
    src = open(a.src).read() if os.path.exists(a.src) else a.src
    ir0, ir, lp, lo, d = build(src, not a.no_opt, a.poles, a.plan)
    if a.ir:
        print("--- IR before opt"); [print("  ", o) for o in ir0]
        print("--- IR after"); [print("  ", o) for o in ir]
    if a.plan and lp:
        for pid, p in lp.entity_placements.items():
            props = {k: v for k, v in p.properties.items() if k not in ("debug_info",)}
            print(pid, p.entity_type, p.role, p.position, props)
        for w in lp.wire_connections:
            print("  wire", w)
    for m in d.get_messages(): print("DIAG", m)
