"""Behaviour-preserving variant generator: hoist call arguments into temporaries in a scratch copy of /repo (see fv/variants.py).
usage: benign_extract.py <dst-dir> [--with-tests]"""
import os, sys
sys.path.insert(0, os.path.join(os.path.dirname(os.path.abspath(__file__)), ".."))
from fv.variants import make_extract

args = [a for a in sys.argv[1:] if not a.startswith("--")]
n = make_extract(os.environ.get("FV_REPO", "/repo"), args[0], "--with-tests" in sys.argv)
print("hoisted", n, "argument expressions")
