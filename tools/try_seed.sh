#!/bin/sh
# usage: tools/try_seed.sh <patch.diff> <prop> [<prop> ...]   -- applies the patch to /repo, runs the checks, reverts
P="$1"; shift
cd /repo || exit 2
if ! git diff --quiet; then echo "/repo has uncommitted changes; refusing"; exit 2; fi
if ! git apply --check "$P" 2>/dev/null; then
  if ! git apply --3way --check "$P" 2>/dev/null; then echo "PATCH-DOES-NOT-APPLY $P"; exit 3; fi
  git apply --3way "$P" 2>/dev/null; git reset -q
else
  git apply "$P"
fi
cd /verif
for p in "$@"; do
  FV_NO_EVIDENCE=1 ./check "$p" 2>&1 | grep -v conda | grep -E "violated|VIOLATION|ANALYSIS-ERROR|INCONCLUSIVE|obligations=" | cut -c1-300
done
cd /repo && git checkout -q -- . && git clean -fdq -e output >/dev/null 2>&1
git status --short | head -3
