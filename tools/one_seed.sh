#!/bin/bash
# usage: tools/one_seed.sh <patch.diff> <prop> [<prop> ...]   -- run checks against a scratch copy of /repo with one patch applied
set -u
patch=$1; shift
tmp=$(mktemp -d /tmp/fvone_XXXX)
trap 'rm -rf "$tmp"' EXIT
for item in compile.py dsl_compiler lib doc example_programs README.md LANGUAGE_SPEC.md; do
  [ -e /repo/$item ] && rsync -a --exclude __pycache__ --exclude '*.pyc' --exclude '*.png' --exclude '*.gif' --exclude tests /repo/$item "$tmp/"
done
(cd "$tmp" && patch -p1 -s -f -i "$patch") || { echo "patch failed"; exit 3; }
cd /verif
for p in "$@"; do
  FV_REPO=$tmp FV_NO_EVIDENCE=1 /venv/bin/python -B -m fv.main "$p" 2>&1 | grep -E "^  violated|^ANALYSIS|obligations=" | cut -c1-${CUT:-330}
done
