"""Run every check against every seeded defect (scratch copies of /repo, FV_REPO), print the detection matrix.
usage: python3 tools/seed_matrix.py <seed-root> [pattern]     (seed dirs: <root>/<prop>/<name>/patch.diff)"""
import json, os, shutil, subprocess, sys, tempfile, glob
from concurrent.futures import ThreadPoolExecutor

ROOT = sys.argv[1] if len(sys.argv) > 1 else "/verif/seeded"
PAT = sys.argv[2] if len(sys.argv) > 2 else "*"
PROPS = [json.loads(l)["id"] for l in open("/verif/properties.jsonl")]

def run_seed(patch):
    name = "/".join(patch.split("/")[-3:-1])
    tmp = tempfile.mkdtemp(prefix="fvmx_")
    try:
        for item in ("compile.py", "dsl_compiler", "lib", "doc", "example_programs", "README.md", "LANGUAGE_SPEC.md"):
            src = os.path.join("/repo", item)
            if os.path.isdir(src):
                shutil.copytree(src, os.path.join(tmp, item), ignore=shutil.ignore_patterns("__pycache__", "*.pyc", "*.png", "*.gif", "tests"))
            elif os.path.exists(src):
                shutil.copy2(src, os.path.join(tmp, item))
        r = subprocess.run(["patch", "-p1", "-s", "-f", "-i", patch], cwd=tmp, capture_output=True, text=True)
        if r.returncode != 0:
            return name, {"_apply": "FAILED " + (r.stdout + r.stderr)[:200]}
        res = {}
        for p in PROPS:
            env = dict(os.environ, FV_REPO=tmp, FV_NO_EVIDENCE="1")
            c = subprocess.run(["/venv/bin/python", "-B", "-m", "fv.main", p], cwd="/verif", env=env, capture_output=True, text=True)
            viol = [l for l in c.stdout.splitlines() if l.startswith("  violated")]
            res[p] = (c.returncode, [v[11:150] for v in viol], [l for l in c.stdout.splitlines() if l.startswith("ANALYSIS-ERROR")][:1])
        return name, res
    finally:
        shutil.rmtree(tmp, ignore_errors=True)

patches = sorted(glob.glob(os.path.join(ROOT, PAT, "*", "patch.diff")))
with ThreadPoolExecutor(max_workers=8) as ex:
    results = list(ex.map(run_seed, patches))
out = {}
for name, res in results:
    if "_apply" in res:
        print(f"{name}: {res['_apply']}")
        continue
    hits = {p: v for p, v in res.items() if v[0] == 1}
    errs = {p: v for p, v in res.items() if v[0] == 2}
    own = name.split("/")[0]
    tag = "CAUGHT-BY-OWN" if own in hits else ("caught-by-other" if hits else ("analysis-error-only" if errs else "MISSED"))
    print(f"{name}: {tag}  violations in {sorted(hits)}" + (f"  exit2 in {sorted(errs)}" if errs else ""))
    for p, v in sorted(hits.items()):
        for line in v[1][:2]:
            print(f"      {p}: {line}")
    out[name] = {"detected_by": sorted(hits), "exit2": sorted(errs), "details": {p: v[1][:3] for p, v in hits.items()}}
json.dump(out, open("/tmp/seed_matrix.json", "w"), indent=1)
