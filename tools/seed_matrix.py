"""Run every check against every seeded defect (scratch copies of /repo, FV_REPO), print the detection matrix.
usage: python3 tools/seed_matrix.py <seed-root> [pattern]     (seed dirs: <root>/<prop>/<name>/patch.diff)"""
import json, os, shutil, subprocess, sys, tempfile, glob
from concurrent.futures import ThreadPoolExecutor

ROOT = sys.argv[1] if len(sys.argv) > 1 else "/verif/seeded"
PAT = sys.argv[2] if len(sys.argv) > 2 else "*"
PROPS = [json.loads(l)["id"] for l in open("/verif/properties.jsonl")]

BASE = os.environ.get("MATRIX_BASE")  # a commit of /repo: run the seeds on the tree they were written against, and report only what that tree alone does not
CONFIRM = json.load(open(os.environ["MATRIX_CONFIRM"])) if os.environ.get("MATRIX_CONFIRM") else {}  # per-seed base: results.json of tools/confirm_seeds.py (field `head`)


def base_of(name):
    return (CONFIRM.get(name) or {}).get("head") or BASE


def materialise(tmp, base=None):
    base = base or BASE
    if base:
        subprocess.run(f"git -C /repo archive {base} compile.py dsl_compiler lib doc README.md LANGUAGE_SPEC.md | tar -x -C {tmp}", shell=True, check=True)
        return
    for item in ("compile.py", "dsl_compiler", "lib", "doc", "example_programs", "README.md", "LANGUAGE_SPEC.md"):
        src = os.path.join("/repo", item)
        if os.path.isdir(src):
            shutil.copytree(src, os.path.join(tmp, item), ignore=shutil.ignore_patterns("__pycache__", "*.pyc", "*.png", "*.gif", "tests"))
        elif os.path.exists(src):
            shutil.copy2(src, os.path.join(tmp, item))


def violations(tmp, p):
    env = dict(os.environ, FV_REPO=tmp, FV_NO_EVIDENCE="1")
    c = subprocess.run(["/venv/bin/python", "-B", "-m", "fv.main", p], cwd="/verif", env=env, capture_output=True, text=True)
    viol = [l[11:] for l in c.stdout.splitlines() if l.startswith("  violated")]
    known = [l for l in c.stdout.splitlines() if l.startswith("KNOWN-FINDING")]
    return c.returncode, viol, [l for l in c.stdout.splitlines() if l.startswith("ANALYSIS-ERROR")][:1], known


BASELINE = {}  # base commit -> property -> set of violated constructs (incl. known findings) of the base tree alone


def baseline_for(base):
    if base in BASELINE:
        return BASELINE[base]
    _t = tempfile.mkdtemp(prefix="fvmxb_")
    out = {}
    try:
        materialise(_t, base)
        with ThreadPoolExecutor(max_workers=8) as _ex:
            for p, r in zip(PROPS, _ex.map(lambda p: violations(_t, p), PROPS)):
                out[p] = {v.split(" :: ")[0] for v in r[1]} | {k.split(" :: ")[0].split(" ", 2)[-1] for k in r[3]}
    finally:
        shutil.rmtree(_t, ignore_errors=True)
    BASELINE[base] = out
    return out


def run_seed(patch):
    name = "/".join(patch.split("/")[-3:-1])
    tmp = tempfile.mkdtemp(prefix="fvmx_")
    base = base_of(name)
    try:
        materialise(tmp, base)
        r = subprocess.run(["patch", "-p1", "-s", "-f", "-i", patch], cwd=tmp, capture_output=True, text=True)
        if r.returncode != 0:
            return name, {"_apply": "FAILED " + (r.stdout + r.stderr)[:200]}
        res = {}
        for p in PROPS:
            rc, viol, err, _known = violations(tmp, p)
            if base:
                viol = [v for v in viol if v.split(" :: ")[0] not in BASELINE.get(base, {}).get(p, set())]
                rc = 1 if viol else (2 if rc == 2 else 0)
            res[p] = (rc, [v[:140] for v in viol], err)
        return name, res
    finally:
        shutil.rmtree(tmp, ignore_errors=True)

patches = sorted(glob.glob(os.path.join(ROOT, PAT, "*", "patch.diff")))
for _b in sorted({base_of("/".join(p.split("/")[-3:-1])) for p in patches} - {None}):
    baseline_for(_b)  # computed before the worker threads start
with ThreadPoolExecutor(max_workers=8) as ex:
    results = list(ex.map(run_seed, patches))
out = {}
for name, res in results:
    if "_apply" in res:
        print(f"{name}: {res['_apply']}")
        continue
    hits = {p: v for p, v in res.items() if v[0] == 1}
    errs = {p: v for p, v in res.items() if v[0] == 2}
    own = name.split("/")[0]
    tag = "CAUGHT-BY-OWN" if own in hits else ("caught-by-other" if hits else ("analysis-error-only" if errs else "MISSED"))
    print(f"{name}: {tag}  violations in {sorted(hits)}" + (f"  exit2 in {sorted(errs)}" if errs else ""))
    for p, v in sorted(hits.items()):
        for line in v[1][:2]:
            print(f"      {p}: {line}")
    out[name] = {"detected_by": sorted(hits), "exit2": sorted(errs), "details": {p: v[1][:3] for p, v in hits.items()}}
json.dump(out, open(os.environ.get("MATRIX_OUT", "/tmp/seed_matrix.json"), "w"), indent=1)
