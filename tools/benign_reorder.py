"""Write a copy of /repo with adjacent, independent, effect-free local assignments swapped (fv/variants.py).
usage: python3 tools/benign_reorder.py <dst> [--with-tests]"""
import sys
sys.path.insert(0, "/verif")
from fv.variants import make_reorder

print(make_reorder("/repo", sys.argv[1], with_tests="--with-tests" in sys.argv), "swaps")
