"""Confirm seeded defects myself: for each <root>/<prop>/<name>/{patch.diff,demo.py}: scratch worktree of /repo HEAD,
demo without patch (expect 0), apply, demo with patch (expect 1), full suite with patch (expect only the two sandbox failures;
other failures are re-run alone once).  Results -> /tmp/confirm/results.json.   usage: confirm_seeds.py <root> [names...]"""
import glob, json, os, re, subprocess, sys, time

ROOT = sys.argv[1]
ONLY = set(sys.argv[2:])
OUT = os.environ.get("CONFIRM_OUT", "/tmp/confirm")
os.makedirs(OUT, exist_ok=True)
RES = os.path.join(OUT, "results.json")
results = json.load(open(RES)) if os.path.exists(RES) else {}
KNOWN_FAIL = {"tests/test_cli.py::TestCliCoverageGaps::test_read_file_error_unreadable_file", "tests/test_cli.py::TestCliCoverageGaps::test_write_file_error_unwritable_directory"}

def sh(cmd, cwd, timeout=3600, env=None):
    e = dict(os.environ)
    e.update(env or {})
    p = subprocess.run(cmd, shell=True, cwd=cwd, capture_output=True, text=True, timeout=timeout, env=e)
    return p.returncode, p.stdout + p.stderr

for patch in sorted(glob.glob(os.path.join(ROOT, "*", "*", "patch.diff"))):
    d = os.path.dirname(patch)
    name = "/".join(d.split("/")[-2:])
    if ONLY and name not in ONLY:
        continue
    if name in results and results[name].get("done"):
        continue
    demo = os.path.join(d, "demo.py")
    if not os.path.exists(demo):
        continue
    wt = os.path.join(OUT, "wt_" + name.replace("/", "_"))
    sh(f"git -C /repo worktree remove --force {wt}", "/")
    base = os.environ.get("CONFIRM_BASE", "HEAD")  # the tree the seed was written against
    rc, out = sh(f"git -C /repo worktree add -q --detach {wt} {base}", "/")
    r = {"head": sh(f"git -C /repo rev-parse --short {base}", "/")[1].strip()}
    try:
        env = {"PYTHONPATH": wt}
        rc0, o0 = sh(f"/venv/bin/python {demo}", wt, 1800, env)
        r["demo_clean_exit"] = rc0
        rca, oa = sh(f"git apply {patch}", wt)
        r["applies"] = rca == 0
        if rca != 0:
            r["apply_err"] = oa[-300:]
            results[name] = r
            continue
        rc1, o1 = sh(f"/venv/bin/python {demo}", wt, 1800, env)
        r["demo_patched_exit"] = rc1
        r["demo_patched_tail"] = o1.strip().splitlines()[-3:]
        t = time.time()
        rcs, os_ = sh("/venv/bin/python -m pytest -q -p no:cacheprovider -n 8 --timeout=900 -x --maxfail=40 2>&1 | tail -60", wt, 5400, env)
        failed = set(re.findall(r"^FAILED (\S+)", os_, re.M))
        extra = sorted(failed - KNOWN_FAIL)
        r["suite_summary"] = [l for l in os_.splitlines() if " passed" in l or " failed" in l][-1:]
        r["suite_wall_s"] = int(time.time() - t)
        still = []
        if extra:
            rcr, orr = sh("/venv/bin/python -m pytest -q -p no:cacheprovider -n 2 --timeout=900 " + " ".join(f"'{x}'" for x in extra) + " 2>&1 | tail -15", wt, 3600, env)
            still = sorted(set(re.findall(r"^FAILED (\S+)", orr, re.M)))
            r["rerun_alone"] = {"retried": extra, "still_failing": still}
        r["suite_ok"] = not still
        r["done"] = True
    except Exception as e:  # noqa: BLE001
        r["error"] = repr(e)[:300]
    finally:
        sh(f"git -C /repo worktree remove --force {wt}", "/")
    results[name] = r
    json.dump(results, open(RES, "w"), indent=1)
    print(name, {k: r.get(k) for k in ("demo_clean_exit", "demo_patched_exit", "suite_summary", "suite_ok")}, flush=True)
