"""Remove run-time noise from a seed matrix: a construct that is reported for (nearly) every seed of one base tree was reported because a rule was added
while the matrix was running (the base tree's own baseline had been taken before), not because of the seeds.
usage: python3 tools/clean_matrix.py <matrix.json> [<bases.json>] > cleaned.json"""
import json, sys, collections

m = json.load(open(sys.argv[1]))
bases = json.load(open(sys.argv[2])) if len(sys.argv) > 2 else {}
groups = collections.defaultdict(list)
for name in m:
    groups[(bases.get(name) or {}).get("head", "-")].append(name)
for base, names in groups.items():
    cnt = collections.Counter()
    for n in names:
        for p, lines in m[n].get("details", {}).items():
            for l in set(x.split(" :: ")[0] for x in lines):
                cnt[(p, l)] += 1
    noise = {k for k, c in cnt.items() if len(names) >= 6 and c >= 0.6 * len(names)}
    for n in names:
        det = {}
        for p, lines in m[n].get("details", {}).items():
            keep = [x for x in lines if (p, x.split(" :: ")[0]) not in noise]
            if keep:
                det[p] = keep
        m[n]["details"] = det
        m[n]["detected_by"] = sorted(det)
json.dump(m, sys.stdout, indent=1)
