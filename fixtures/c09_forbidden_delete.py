# Positive fixture for C09-R4 (never imported by anything): a deletion of a placement whose key does not
# derive from a compiler-owned id. The who-may-delete matcher must flag `drop` on every run.
class Fixture:
    def drop(self, plan, victim):
        for entity_id, placement in list(plan.entity_placements.items()):
            if placement.entity_type == victim:
                del plan.entity_placements[entity_id]
